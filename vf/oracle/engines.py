"""Reference engines: a fresh in-memory SQLite / DuckDB database per case, row normalisation."""
from __future__ import annotations

import datetime
import decimal
import math
import sqlite3

from ..gen import sqlgen


import re

_LONG_FRACTION = re.compile(r"(\d+\.\d{6})\d{4,}")


def norm_value(v):
    if isinstance(v, bool):
        return int(v)
    if isinstance(v, (float, decimal.Decimal)):
        f = float(v)
        if math.isnan(f) or math.isinf(f):
            return repr(f)
        return int(f) if f == int(f) else round(f, 6)
    if isinstance(v, datetime.datetime):
        return v.isoformat(sep=" ")
    if isinstance(v, (datetime.date, datetime.time)):
        return v.isoformat()
    if isinstance(v, (bytes, bytearray)):
        return bytes(v).hex()
    if isinstance(v, str) and "." in v:
        # a float written as text by the engine itself (CAST(AVG(x) AS TEXT), '' || 1.0 / 3): SQLite prints 15 significant
        # digits, DuckDB 17. Like floats, such digit runs are compared to 6 decimals
        return _LONG_FRACTION.sub(r"\1", v)
    return v


def norm_rows(rows, ordered):
    out = [tuple(norm_value(v) for v in r) for r in rows]
    return out if ordered else sorted(out, key=repr)


_DUCK = None


def _duck():
    global _DUCK
    if _DUCK is None:
        import duckdb

        _DUCK = duckdb.connect(config={"threads": 1})
    return _DUCK


def _val_sql(v, ty, prof):
    if v is None:
        return "NULL"
    if isinstance(v, bool):
        return "TRUE" if v else "FALSE"
    if isinstance(v, (int, float)):
        return repr(v)
    s = "'" + str(v).replace("'", "''") + "'"
    if ty == sqlgen.TS and prof == "duckdb":
        return f"CAST({s} AS TIMESTAMP)"
    return s


class Engines:
    """Fresh tables per case. SQLite: a new in-memory database; DuckDB: one connection per worker
    process (connection start-up dominates otherwise), all tables dropped and recreated."""

    def __init__(self, tables, data, want=("sqlite", "duckdb")):
        self.tables, self.data = tables, data
        self.con = {}
        if "sqlite" in want:
            c = sqlite3.connect(":memory:")
            for s in sqlgen.ddl(tables, "sqlite"):
                c.execute(s)
            for t in tables:
                rows = data.get(t.name) or []
                if rows:
                    c.executemany(f"INSERT INTO {t.name} VALUES ({', '.join('?' * len(t.cols))})", rows)
            self.con["sqlite"] = c
        if "duckdb" in want:
            c = _duck()
            for (name,) in c.execute("SELECT table_name FROM information_schema.tables WHERE table_schema='main'").fetchall():
                c.execute(f'DROP TABLE IF EXISTS "{name}" CASCADE')
            for s in sqlgen.ddl(tables, "duckdb"):
                c.execute(s)
            for t in tables:
                rows = data.get(t.name) or []
                if rows:
                    vals = ", ".join("(" + ", ".join(_val_sql(v, ty, "duckdb") for v, (_, ty) in zip(r, t.cols)) + ")" for r in rows)
                    c.execute(f"INSERT INTO {t.name} VALUES {vals}")
            self.con["duckdb"] = c

    def run(self, engine, sql, ordered=False):
        """-> ('ok', rows, names) | ('err', message)"""
        c = self.con[engine]
        try:
            cur = c.execute(sql)
            rows = cur.fetchall()
            names = [d[0] for d in cur.description] if cur.description else []
            return ("ok", norm_rows(rows, ordered), names)
        except Exception as e:  # engine error
            return ("err", f"{type(e).__name__}: {str(e)[:200]}")

    def duck_self_consistent(self, sql, ordered=False):
        """DuckDB answers the same with its optimizer disabled? (False = engine bug: the case says
        nothing about sqlglot and is dropped by the caller; only consulted after a mismatch.)"""
        c = self.con["duckdb"]
        a = self.run("duckdb", sql, ordered)
        try:
            c.execute("PRAGMA disable_optimizer")
            b = self.run("duckdb", sql, ordered)
        finally:
            c.execute("PRAGMA enable_optimizer")
        return a[0] == b[0] and (a[0] != "ok" or a[1] == b[1])

    def close(self):
        c = self.con.get("sqlite")
        if c is not None:
            c.close()

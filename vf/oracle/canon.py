"""Independent canonical form and deep fingerprints of sqlglot trees.

`canon(tree)` is an own recursive description of a tree that encodes the library's documented
equality rules (absent = None = False = empty list; string args compared case-insensitively except
inside nodes that hash their args raw, i.e. identifiers and literals). It is used wherever the
library's `__eq__` (hash equality) must not be its own judge.

`fingerprint(tree)` additionally records node identities, parent links, comments, public `.type`
and meta: two fingerprints of the same object graph are equal iff nothing observable changed.
"""
from __future__ import annotations


def _is_expr(x):
    return hasattr(x, "args") and hasattr(x, "arg_key") and hasattr(x, "key")


def canon(n):
    if _is_expr(n):
        raw = bool(getattr(n, "_hash_raw_args", False))
        items = []
        for k in sorted(n.args):
            v = n.args[k]
            if raw:
                if v:
                    items.append((k, canon_raw(v)))
                continue
            if type(v) is list:
                for x in v:
                    if x is None or x is False:
                        items.append((k,))
                    else:
                        items.append((k, canon(x)))
            elif v is not None and v is not False:
                items.append((k, canon(v)))
        return (n.key, tuple(items))
    if isinstance(n, str):
        return n.lower()
    if isinstance(n, (list, tuple)):
        return tuple(canon(x) for x in n)
    return n


def canon_raw(v):
    if _is_expr(v):
        return canon(v)
    if isinstance(v, (list, tuple)):
        return tuple(canon_raw(x) for x in v)
    return v


def canon_equal(a, b):
    return type(a) is type(b) and canon(a) == canon(b)


def type_sql(node):
    t = getattr(node, "type", None)
    if t is None:
        return None
    try:
        return t.sql()
    except Exception:
        return repr(t)


def _meta(node):
    m = getattr(node, "_meta", None)
    if not m:
        return ()
    return tuple(sorted((str(k), repr(v) if not _is_expr(v) else ("expr", v.sql())) for k, v in m.items()))


def fingerprint(tree, with_ids=True):
    """Deep fingerprint: DFS list of (id, class, parent id, arg_key, index, scalar args, comments, type, meta)."""
    out = []
    stack = [tree]
    seen = set()
    while stack:
        n = stack.pop()
        if id(n) in seen:
            out.append(("shared", id(n) if with_ids else type(n).__name__))
            continue
        seen.add(id(n))
        scalars = []
        children = []
        for k, v in n.args.items():
            if _is_expr(v):
                children.append(v)
                scalars.append((k, "E", id(v) if with_ids else None))
            elif type(v) is list:
                sub = []
                for x in v:
                    if _is_expr(x):
                        children.append(x)
                        sub.append(("E", id(x) if with_ids else None))
                    else:
                        sub.append(repr(x))
                scalars.append((k, "L", tuple(sub)))
            else:
                scalars.append((k, "S", repr(v)))
        out.append((
            id(n) if with_ids else None, type(n).__name__,
            (id(n.parent) if with_ids else type(n.parent).__name__) if n.parent is not None else None,
            n.arg_key, n.index, tuple(scalars),
            tuple(n.comments) if n.comments else (),
            type_sql(n), _meta(n),
        ))
        stack.extend(reversed(children))
    return out


def check_links(tree):
    """Structural invariants of a tree: every child records the parent / arg_key / index under which it
    is stored; no node object is stored twice. Returns a list of problems (empty = consistent)."""
    problems = []
    seen = {}
    stack = [tree]
    while stack:
        n = stack.pop()
        for k, v in n.args.items():
            vals = v if type(v) is list else [v]
            for i, x in enumerate(vals):
                if not _is_expr(x):
                    continue
                idx = i if type(v) is list else None
                if id(x) in seen:
                    problems.append(("shared-node", type(x).__name__, f"{type(n).__name__}.{k}", seen[id(x)]))
                    continue
                seen[id(x)] = f"{type(n).__name__}.{k}"
                if x.parent is not n:
                    problems.append(("parent", type(x).__name__, f"{type(n).__name__}.{k}",
                                     type(x.parent).__name__ if x.parent is not None else None))
                elif x.arg_key != k:
                    problems.append(("arg_key", type(x).__name__, f"{type(n).__name__}.{k}", x.arg_key))
                elif x.index != idx:
                    problems.append(("index", type(x).__name__, f"{type(n).__name__}.{k}", (x.index, idx)))
                stack.append(x)
    return problems


def fresh_clone(n, reverse=False):
    """Rebuild a tree bottom-up without copy()/load(): cls() + direct arg assignment. No caches survive.
    reverse=True inserts every node's args in the opposite order (equality must not depend on dict order)."""
    cls = type(n)
    new = cls.__new__(cls)
    try:
        cls.__init__(new)
    except Exception:
        pass
    new.args = {}
    items = list(n.args.items())
    if reverse:
        items.reverse()
    for k, v in items:
        if _is_expr(v):
            new.args[k] = fresh_clone(v, reverse)
        elif type(v) is list:
            new.args[k] = [fresh_clone(x, reverse) if _is_expr(x) else x for x in v]
        else:
            new.args[k] = v
    new._hash = None
    return new


def check_hashes(tree):
    """Every cached _hash equals the hash of a cache-free clone."""
    problems = []
    for n in tree.walk():
        if getattr(n, "_hash", None) is not None:
            h = hash(fresh_clone(n))
            if h != n._hash:
                problems.append(("stale-hash", type(n).__name__, n.arg_key))
    return problems

import sys

from .cli import main

sys.exit(main())

"""KNOWN_FINDINGS.txt: committed list of genuine defects that are recorded, not repaired.

    known: property=C06 key=<signature> :: <what fails>
    fixed: property=C18 <commit> <what failed>

`known` entries are matched by exact (property, key); `fixed` entries suppress nothing.
The file is never written at run time.
"""
import os
import re

from .common import VERIF_DIR

PATH = os.path.join(VERIF_DIR, "KNOWN_FINDINGS.txt")
_LINE = re.compile(r"^known:\s+property=(C\d+)\s+key=(.+?)\s+::\s+(.*)$")


def load(path=PATH):
    out = {}
    if not os.path.exists(path):
        return out
    with open(path, encoding="utf-8") as f:
        for line in f:
            line = line.rstrip("\n")
            m = _LINE.match(line)
            if m:
                out[(m.group(1), m.group(2))] = m.group(3)
    return out

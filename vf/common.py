"""Shared helpers: locating the library under test, dialect list, work-budget monitor."""
from __future__ import annotations

import hashlib
import json
import logging
import os
import sys
import threading
import time

VERIF_DIR = os.path.dirname(os.path.dirname(os.path.abspath(__file__)))
REPO = os.environ.get("VF_REPO", "/repo")
GUARD = "SQLGLOT_VERIF"


def setup_repo():
    """Make `import sqlglot` resolve to the working tree under test, quietly."""
    if sys.path[0] != REPO:
        sys.path.insert(0, REPO)
    os.environ[GUARD] = "1"
    import sqlglot  # noqa

    f = os.path.realpath(sqlglot.__file__)
    if not f.startswith(os.path.realpath(REPO) + os.sep):
        raise RuntimeError(f"sqlglot imported from {f}, expected under {REPO}")
    logging.getLogger("sqlglot").setLevel(logging.CRITICAL + 1)
    return sqlglot


def dialect_names():
    """All registered dialect names, lower case, base dialect as ''."""
    from sqlglot.dialects import DIALECTS

    return [""] + sorted(d.lower() for d in DIALECTS)


def h64(obj) -> str:
    if not isinstance(obj, str):
        obj = json.dumps(obj, sort_keys=True, default=repr)
    return hashlib.blake2b(obj.encode("utf-8", "surrogatepass"), digest_size=8).hexdigest()


# ---------------------------------------------------------------------------------
# Work budget: count Python function starts inside <REPO>/sqlglot and abort a call
# that exceeds its budget. Deterministic (does not depend on the clock or the load).
# ---------------------------------------------------------------------------------


class BudgetExceeded(BaseException):
    """Raised from the sys.monitoring callback; BaseException so that the library's
    own `except Exception` wrappers do not swallow it."""


class StallInterrupt(BaseException):
    """Injected into the monitored thread by the stall watchdog (see Budget.run)."""


STALL_SECONDS = 5.0


class Budget:
    """Two monitors. The cheap one counts PY_START events of library code and raises at the limit. A loop that never
    calls a Python function is invisible to it, so a watchdog thread interrupts a call that has been running for
    STALL_SECONDS and the call is then repeated under the precise monitor, which also counts JUMP events (one per loop
    iteration): the verdict 'budget' is always a logical count, never the clock."""

    def __init__(self):
        self.M = sys.monitoring
        self.tool = None
        for i in range(6):
            if self.M.get_tool(i) is None:
                self.tool = i
                break
        if self.tool is None:
            raise RuntimeError("no free sys.monitoring tool id")
        self.M.use_tool_id(self.tool, "vf-budget")
        self.prefix = os.path.join(os.path.realpath(REPO), "sqlglot") + os.sep
        self.n = 0
        self.limit = None
        self.calls = 0
        self.stalls = 0            # calls interrupted by the watchdog
        self.stalls_confirmed = 0  # ... that then exceeded the precise (jump-counting) budget
        self.M.register_callback(self.tool, self.M.events.PY_START, self._on_start)
        self.M.register_callback(self.tool, self.M.events.JUMP, self._on_jump)
        self._lock = threading.Lock()
        self._active_since = None
        self._fired = False
        self._tid = threading.get_ident()
        self._watchdog = threading.Thread(target=self._watch, daemon=True, name="vf-stall-watchdog")
        self._watchdog.start()

    def _on_start(self, code, offset):
        if not code.co_filename.startswith(self.prefix):
            return self.M.DISABLE
        self.n += 1
        if self.limit is not None and self.n > self.limit:
            self.limit = None
            raise BudgetExceeded()

    def _on_jump(self, code, offset, dest):
        if not code.co_filename.startswith(self.prefix):
            return self.M.DISABLE
        self.n += 1
        if self.limit is not None and self.n > self.limit:
            self.limit = None
            raise BudgetExceeded()

    def _watch(self):
        import ctypes

        while True:
            time.sleep(0.5)
            with self._lock:
                t0 = self._active_since
                if t0 is not None and not self._fired and time.monotonic() - t0 > STALL_SECONDS:
                    self._fired = True
                    ctypes.pythonapi.PyThreadState_SetAsyncExc(ctypes.c_ulong(self._tid), ctypes.py_object(StallInterrupt))

    def _disarm(self):
        import ctypes

        with self._lock:
            self._active_since = None
            if self._fired:
                # an interrupt that was requested but not delivered yet must not surface later
                ctypes.pythonapi.PyThreadState_SetAsyncExc(ctypes.c_ulong(self._tid), None)

    def _attempt(self, fn, limit, events, watchdog=True):
        self.n = 0
        self.limit = limit
        with self._lock:
            self._fired = False
            self._active_since = time.monotonic() if watchdog and threading.get_ident() == self._tid else None
        self.M.set_events(self.tool, events)
        try:
            try:
                return ("ok", fn())
            except BudgetExceeded:
                return ("budget", None)
            except StallInterrupt:
                return ("stall", None)
            except RecursionError as e:
                return ("exc", e)
            except Exception as e:
                return ("exc", e)
        finally:
            self.limit = None
            self.M.set_events(self.tool, 0)
            try:
                self._disarm()
            except StallInterrupt:
                pass

    def run(self, fn, limit):
        """Run fn() under the budget. Returns ('ok', value) | ('budget', None) |
        ('exc', exception). self.n holds the work count afterwards."""
        self.calls += 1
        try:
            r = self._attempt(fn, limit, self.M.events.PY_START)
        except StallInterrupt:
            r = ("stall", None)
        if r[0] != "stall":
            return r
        self.stalls += 1
        # precise re-run: function starts + loop iterations, 20 per budgeted function start (at most 50 million); no
        # watchdog here - the count decides. (A call stuck inside C code makes no countable progress: the shard is then
        # killed by the driver and the run is inconclusive.)
        r = self._attempt(fn, min(limit * 20, 50_000_000), self.M.events.PY_START | self.M.events.JUMP, watchdog=False)
        if r[0] == "budget":
            self.stalls_confirmed += 1
        return r


_budget = None


def budget() -> Budget:
    global _budget
    if _budget is None:
        _budget = Budget()
    return _budget


def work_limit(ntokens: int) -> int:
    return 20000 + 4000 * ntokens + 60 * ntokens * ntokens


def guarded(fn, ntokens: int = 50):
    """Run fn under the standard work budget (protection against C05-type hangs in
    checks whose subject is something else)."""
    return budget().run(fn, work_limit(ntokens))

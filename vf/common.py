"""Shared helpers: locating the library under test, dialect list, work-budget monitor."""
from __future__ import annotations

import hashlib
import json
import logging
import os
import sys

VERIF_DIR = os.path.dirname(os.path.dirname(os.path.abspath(__file__)))
REPO = os.environ.get("VF_REPO", "/repo")
GUARD = "SQLGLOT_VERIF"


def setup_repo():
    """Make `import sqlglot` resolve to the working tree under test, quietly."""
    if sys.path[0] != REPO:
        sys.path.insert(0, REPO)
    os.environ[GUARD] = "1"
    import sqlglot  # noqa

    f = os.path.realpath(sqlglot.__file__)
    if not f.startswith(os.path.realpath(REPO) + os.sep):
        raise RuntimeError(f"sqlglot imported from {f}, expected under {REPO}")
    logging.getLogger("sqlglot").setLevel(logging.CRITICAL + 1)
    return sqlglot


def dialect_names():
    """All registered dialect names, lower case, base dialect as ''."""
    from sqlglot.dialects import DIALECTS

    return [""] + sorted(d.lower() for d in DIALECTS)


def h64(obj) -> str:
    if not isinstance(obj, str):
        obj = json.dumps(obj, sort_keys=True, default=repr)
    return hashlib.blake2b(obj.encode("utf-8", "surrogatepass"), digest_size=8).hexdigest()


# ---------------------------------------------------------------------------------
# Work budget: count Python function starts inside <REPO>/sqlglot and abort a call
# that exceeds its budget. Deterministic (does not depend on the clock or the load).
# ---------------------------------------------------------------------------------


class BudgetExceeded(BaseException):
    """Raised from the sys.monitoring callback; BaseException so that the library's
    own `except Exception` wrappers do not swallow it."""


class Budget:
    def __init__(self):
        self.M = sys.monitoring
        self.tool = None
        for i in range(6):
            if self.M.get_tool(i) is None:
                self.tool = i
                break
        if self.tool is None:
            raise RuntimeError("no free sys.monitoring tool id")
        self.M.use_tool_id(self.tool, "vf-budget")
        self.prefix = os.path.join(os.path.realpath(REPO), "sqlglot") + os.sep
        self.n = 0
        self.limit = None
        self.calls = 0
        self.M.register_callback(self.tool, self.M.events.PY_START, self._on_start)

    def _on_start(self, code, offset):
        if not code.co_filename.startswith(self.prefix):
            return self.M.DISABLE
        self.n += 1
        if self.limit is not None and self.n > self.limit:
            self.limit = None
            raise BudgetExceeded()

    def run(self, fn, limit):
        """Run fn() under the budget. Returns ('ok', value) | ('budget', None) |
        ('exc', exception). self.n holds the work count afterwards."""
        self.n = 0
        self.limit = limit
        self.calls += 1
        self.M.set_events(self.tool, self.M.events.PY_START)
        try:
            try:
                return ("ok", fn())
            except BudgetExceeded:
                return ("budget", None)
            except RecursionError as e:
                return ("exc", e)
            except Exception as e:
                return ("exc", e)
        finally:
            self.limit = None
            self.M.set_events(self.tool, 0)


_budget = None


def budget() -> Budget:
    global _budget
    if _budget is None:
        _budget = Budget()
    return _budget


def work_limit(ntokens: int) -> int:
    return 20000 + 4000 * ntokens + 60 * ntokens * ntokens


def guarded(fn, ntokens: int = 50):
    """Run fn under the standard work budget (protection against C05-type hangs in
    checks whose subject is something else)."""
    return budget().run(fn, work_limit(ntokens))

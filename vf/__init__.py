"""Runtime-monitoring verification harness for tobymao/sqlglot (see ../DESIGN.md)."""

"""python -m vf check C07 [--tier quick|thorough]   |   python -m vf replay <file>"""
import argparse
import json
import os
import sys


def main(argv=None):
    ap = argparse.ArgumentParser(prog="vf")
    sub = ap.add_subparsers(dest="cmd", required=True)
    c = sub.add_parser("check")
    c.add_argument("prop")
    c.add_argument("--tier", default=None)
    c.add_argument("--seed", type=int, default=None)
    w = sub.add_parser("worker")
    w.add_argument("prop")
    w.add_argument("--tier", required=True)
    w.add_argument("--seed", type=int, required=True)
    w.add_argument("--shard", type=int, required=True)
    w.add_argument("--of", type=int, required=True)
    w.add_argument("--time-cap", type=float, default=120)
    r = sub.add_parser("replay")
    r.add_argument("path")
    a = ap.parse_args(argv)

    if a.cmd == "worker":
        from .runner import worker_main

        return worker_main(a.prop, a.tier, a.seed, a.shard, a.of, a.time_cap)
    if a.cmd == "check":
        from .runner import run_check

        tier = a.tier or os.environ.get("VERIF_TIER") or "quick"
        if tier not in ("quick", "thorough"):
            tier = "quick"
        seed = a.seed if a.seed is not None else int(os.environ.get("VERIF_SEED", "0") or 0)
        return run_check(a.prop.upper(), tier, seed)
    if a.cmd == "replay":
        import importlib

        from .common import setup_repo

        setup_repo()
        rec = json.load(open(a.path))
        mod = importlib.import_module(f"vf.checks.{rec['property'].lower()}")
        print(json.dumps(rec, indent=1)[:4000])
        if hasattr(mod, "replay"):
            return mod.replay(rec)
        return 0
    return 2

"""C02 - transpilation preserves query results on real engines (SQLite 3.40 / DuckDB 1.5)."""
from __future__ import annotations

from ..gen import sqlgen
from ..oracle.engines import Engines

LEVEL_TEXT = ("Differential execution monitoring: generated queries (own generator, text never produced by sqlglot) run on "
              "the source engine, sqlglot.transpile output runs on the target engine over the same NULL-bearing database, "
              "rows compared as multisets or as sequences under a total ORDER BY, for sqlite->duckdb, duckdb->sqlite and "
              "both identity pairs. Held on the executions observed; other engines are out of reach.")
LEVEL_TEXT += (' Explicit aliases that shadow column names, DISTINCT ON and QUALIFY are generated where the result is determined (never next to a projected window, whose value would depend on tie-breaking).')
LEVEL_NOTE = ("trusts SQLite 3.40.1 and DuckDB 1.5.5 as the meaning of each dialect; cross pairs are limited to the common "
              "fragment listed in DESIGN.md (no integer division, no LIKE on letters, no mixed-type comparison)")
TECHNIQUE = "runtime monitoring: differential execution of source text vs transpiled text on real engines"
RULE = ("seeded typed query generator x small databases with NULLs/duplicates/empty tables x 4 dialect pairs; non-trivial = "
        "source result has >= 1 row; distinct = distinct (source text, pair)")
ASSUMPTIONS = ["SQLite 3.40.1 / DuckDB 1.5.5 define the semantics", "UnsupportedError from transpile(unsupported_level=RAISE) removes the case"]
SPEC = {
    "quick": {"shards": 16, "time_cap": 400, "cases": 40000},
    "thorough": {"shards": 16, "time_cap": 1200, "cases": 300000},
}
PAIRS = [("sqlite", "duckdb"), ("duckdb", "sqlite"), ("sqlite", "sqlite"), ("duckdb", "duckdb")]



def feats_for(src, dst, rng):
    f = dict(div=False, ts=True, strftime=True, nulls_order=True, setops_all=False, full_join=True,
             cte_cols=False, derived_setop=0.1, natural_join=0.1)
    if src == "duckdb":
        f.update(semi_anti=True, window=True, setops_all=(dst == "duckdb"), qualify=True, distinct_on=True, alias_shadow=True)
        if dst == "sqlite":
            # SQLite 3.40's RIGHT/FULL JOIN (new in 3.39) has bugs of its own. With DuckDB-only syntax there is
            # no second opinion on the generator's text, so such cases use either SEMI/ANTI or RIGHT/FULL, not both.
            if rng.random() < 0.5:
                f.update(semi_anti=False)
            else:
                f.update(full_join=False, right_join=False)
    if src == "sqlite":
        # real-valued division chains: SQLite yields NULL for a zero divisor, which the DuckDB text must reproduce
        # (DuckDB as the source yields inf, which SQLite cannot express: not generated in that direction)
        f.update(window=True, real_div=0.15)
    if src == dst:
        f.update(div=False)
    else:
        f.update(avg=False)     # see Gen.agg_expr: non-integer values only arise in the real-division chains, which are never fed to % or casts
    return f


def run_case(ctx, i):
    import sqlglot
    from sqlglot.errors import ErrorLevel, UnsupportedError, SqlglotError

    rng = ctx.case_rng(i)
    src, dst = PAIRS[i % 4]
    tables = sqlgen.gen_schema(rng, ts=True)
    data = sqlgen.gen_data(rng, tables)
    g = sqlgen.Gen(rng, tables, feats_for(src, dst, rng), prof=src)
    q = g.query()
    mode = "full" if rng.random() < 0.15 else "min"
    text = q.render(src, mode)
    # listed findings (probes below): eliminate_distinct_on / eliminate_qualify lose the outer ORDER BY when
    # they wrap the query; such cases are still compared, as multisets
    ordered = q.order_total and not ({"distinct-on", "win:qualify"} & q.tags and dst == "sqlite")
    ctx.count("evaluations")
    _case(ctx, i, q, text, src, dst, tables, data, mode, ordered)


def _case(ctx, i, q, text, src, dst, tables, data, mode, ordered):
    import sqlglot
    from sqlglot.errors import ErrorLevel, UnsupportedError, SqlglotError

    E = Engines(tables, data, want={src, dst})
    try:
        a = E.run(src, text, ordered)
        if a[0] != "ok":
            ctx.count("source_engine_rejected")
            return
        try:
            out = sqlglot.transpile(text, read=src, write=dst, unsupported_level=ErrorLevel.RAISE)[0]
        except UnsupportedError:
            ctx.count("unsupported_raised")
            return
        except SqlglotError as e:
            ctx.violation(f"transpile-error:{src}->{dst}:{type(e).__name__}", {"sql": text, "error": str(e)[:300]},
                          {"pair": [src, dst], "sql": text})
            return
        b = E.run(dst, out, ordered)
        if src != dst:
            # reference for the target engine: the generator's own text for that engine with the source
            # engine's default NULL placement written out. If the two engines disagree on it, the case is an
            # engine idiosyncrasy (e.g. SQLite 3.40 FULL JOIN bugs) and says nothing about sqlglot.
            ref = E.run(dst, sqlgen.render_explicit(q, dst, src, mode), ordered)
            if ref[0] == "ok" and ref[1] != a[1]:
                ctx.count("engines_disagree_dropped")
                return
            ctx.count("reference_confirmed_by_target_engine" if ref[0] == "ok" else "source_only_syntax")
            if ref[0] != "ok" and b[0] != "ok" and str(ref[1]) == str(b[1]) and "syntax error" not in str(b[1]).lower() \
                    and "parser error" not in str(b[1]).lower():
                # the target engine rejects the generator's own text for it with the very same (non-syntax) error, e.g. SQLite
                # 3.40's "ON clause references tables to its right" after a RIGHT JOIN: a limit of that engine, not a
                # translation (an untranslated construct would be a syntax error and is still reported)
                ctx.count("target_engine_rejects_generator_text_too(dropped)")
                return
        ctx.count(f"compared:{src}->{dst}")
        if a[1]:
            ctx.nt([text, src, dst])
        if i % 499 == 0:
            ctx.sample({"pair": f"{src}->{dst}", "source": text, "transpiled": out, "rows": a[1][:3]})
        if b[0] != "ok" or a[1] != b[1]:
            # before blaming sqlglot: is DuckDB consistent with itself (optimizer on/off) on what it ran?
            if (src == "duckdb" and not E.duck_self_consistent(text, ordered)) or (
                    dst == "duckdb" and b[0] == "ok" and not E.duck_self_consistent(out, ordered)):
                ctx.count("engine_bug_dropped")
                return
        if b[0] != "ok" and "INTERNAL Error" in str(b[1]):
            # DuckDB's own assertion failure ("INTERNAL Error ... this is a bug in DuckDB"): says nothing about sqlglot
            ctx.count("engine_bug_dropped")
            return
        if b[0] != "ok":
            ctx.violation(f"target-engine-error:{src}->{dst}", {"source": text, "transpiled": out, "error": b[1]},
                          {"pair": [src, dst], "sql": text, "tables": [(t.name, t.cols) for t in tables], "data": data})
        elif a[1] != b[1]:
            ctx.violation(f"rows-differ:{src}->{dst}", {"source": text, "transpiled": out, "src_rows": a[1][:6], "dst_rows": b[1][:6],
                                                        "tags": sorted(q.tags)},
                          {"pair": [src, dst], "sql": text, "tables": [(t.name, t.cols) for t in tables], "data": data})
        for t in q.tags:
            ctx.count("tag:" + t.split(":")[0])
    finally:
        E.close()


def worker(ctx):
    n = SPEC[ctx.tier]["cases"]
    for i in ctx.mine(n):
        if ctx.expired():
            break
        run_case(ctx, i)
    if ctx.shard == 0:
        probes(ctx)


def probes(ctx):
    """Regression probes for listed findings (constructs excluded from the main workload)."""
    import sqlglot
    from sqlglot.errors import ErrorLevel

    tables = [sqlgen.Table("t1", [("k", sqlgen.INT), ("a1", sqlgen.INT), ("s1", sqlgen.TEXT), ("d1", sqlgen.TS)])]
    data = {"t1": [(2, 7, "x", "2001-02-03 04:05:06"), (0, 3, None, None), (3, -7, "y", "1999-12-31 23:59:58"), (None, 1, "", "2020-07-15 12:30:45")]}
    E = Engines(tables, data)

    def probe(key, src, dst, sql):
        ctx.count("probes")
        a = E.run(src, sql, True)
        try:
            out = sqlglot.transpile(sql, read=src, write=dst, unsupported_level=ErrorLevel.RAISE)[0]
        except Exception as e:
            ctx.violation(key, {"sql": sql, "error": repr(e)[:200]})
            return
        b = E.run(dst, out, True)
        if a[0] == "ok" and (b[0] != "ok" or a[1] != b[1]):
            ctx.violation(key, {"source": sql, "transpiled": out, "src": a[1:2], "dst": b[1:2]})

    probe("probe/div:int-cols:sqlite->duckdb", "sqlite", "duckdb", "SELECT a1 / 2 AS p FROM t1 WHERE k IS NOT NULL ORDER BY 1 NULLS FIRST")
    probe("probe/div:by-zero:sqlite->duckdb", "sqlite", "duckdb", "SELECT a1 / k AS p FROM t1 ORDER BY 1 NULLS FIRST")
    probe("probe/semi-join-then-outer-join:duckdb->sqlite", "duckdb", "sqlite",
          "SELECT x.k AS p, y.a1 AS q FROM t1 AS x SEMI JOIN t1 AS z ON x.k > z.a1 RIGHT JOIN t1 AS y ON x.k = y.a1 ORDER BY 1 NULLS FIRST, 2 NULLS FIRST")
    probe("probe/distinct-on:order-by-lost:duckdb->sqlite", "duckdb", "sqlite",
          "SELECT DISTINCT ON (k) k AS p FROM t1 ORDER BY k DESC NULLS LAST, a1 NULLS FIRST")
    probe("probe/qualify+limit:duckdb->sqlite", "duckdb", "sqlite",
          "SELECT a1 AS p FROM t1 QUALIFY ROW_NUMBER() OVER (ORDER BY a1 NULLS FIRST) = 2 ORDER BY p NULLS FIRST LIMIT 1")
    probe("probe/qualify-with-qualified-column-predicate:duckdb->sqlite", "duckdb", "sqlite",
          "SELECT x.a1 AS p FROM t1 AS x QUALIFY ROW_NUMBER() OVER (ORDER BY x.a1 NULLS FIRST) <= 3 AND x.k > 0 ORDER BY p NULLS FIRST")
    probe("probe/time:timestamp-literal:duckdb->sqlite", "duckdb", "sqlite",
          "SELECT k FROM t1 WHERE d1 < TIMESTAMP '2001-01-01 00:00:00' ORDER BY 1 NULLS FIRST")
    E.close()


def conclude(agg):
    c = agg["counters"]
    out = []
    need = 400 if agg["tier"] == "quick" else 2000
    for s, d in PAIRS:
        if c[f"compared:{s}->{d}"] < need:
            out.append(f"fewer than {need} executed comparisons for {s}->{d} ({c[f'compared:{s}->{d}']})")
    return out


def replay(rec):
    """re-runs the stored SQL text on the stored tables and data"""
    from ..runner import ReplayCtx

    ctx = ReplayCtx()
    case = rec["case"]
    tables = [sqlgen.Table(n, [tuple(c) for c in cols]) for n, cols in case["tables"]]
    data = {k: [tuple(r) for r in v] for k, v in case["data"].items()}

    class Q:
        order_total = " ORDER BY " in case["sql"]
        tags = set()

        def render(self, prof="duckdb", mode="min"):
            return case["sql"]
    _replay_case(ctx, Q(), tables, data, case)
    return ctx.report()


def _replay_case(ctx, q, tables, data, case):
    src, dst = case["pair"]
    _case(ctx, 1, q, case["sql"], src, dst, tables, data, "min", q.order_total)

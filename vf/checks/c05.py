"""C05 - tokenize, parse and generate always terminate with a result or a sqlglot error."""
from __future__ import annotations

import os
import traceback

from ..common import VERIF_DIR, REPO, budget, work_limit
from ..gen import stmts, sqlgen

LEVEL_TEXT = ("Termination and error-family monitoring: every tokenize / parse / transpile / generate call runs under a "
              "deterministic work counter (sys.monitoring PY_START events inside sqlglot); exceeding a + b*n + c*n^2 function "
              "starts for n tokens is non-termination, any exception outside the SqlglotError family at the API boundary is a "
              "leak. Workload: every single-token deletion, duplication, adjacent swap, token-boundary prefix and keyword "
              "insertion over a fixed corpus (seed-independent), plus seeded multi-edit mutations, keyword soups, random "
              "Unicode and valid statements, over rotating dialects and all four error levels, followed by generation of every "
              "tree the parser returned.")
LEVEL_TEXT += (' A lexeme zoo (every prefix / suffix / one-character deletion of ~70 seed lexemes in 8 contexts) is tokenized in every dialect. Termination is decided by a two-stage logical budget: function starts always; after a 5 s watchdog interrupt the call is repeated with loop iterations (JUMP events) counted as well, so that loops without calls are decided by a count, never by the clock.')
LEVEL_NOTE = ("'never loops forever' is restated as bounded work per call; a wall-clock watchdog only ever yields inconclusive. "
              "Internal exceptions raised after an error was already recorded at IGNORE/WARN/RAISE are one listed finding, "
              "identified by a predicate on the witness (the same text raises ParseError at IMMEDIATE)")
TECHNIQUE = "runtime monitoring: deterministic work budget (sys.monitoring) + exception-class oracle at the API boundary"
RULE = ("systematic single-edit neighbourhoods of a fixed corpus + seeded mutations; non-trivial = mutated text of >= 3 lexemes; "
        "distinct = distinct (text, dialect, level)")
ASSUMPTIONS = ["nesting depth of inputs stays far below the interpreter's recursion limit, so RecursionError is the library's"]
SPEC = {
    "quick": {"shards": 16, "time_cap": 400, "corpus_stride": 4, "dialects_per_stmt": 2, "seeded": 20000, "kw_stride": 3, "zoo_stride": 1},
    "thorough": {"shards": 16, "time_cap": 2400, "corpus_stride": 1, "dialects_per_stmt": 4, "seeded": 150000, "kw_stride": 1},
}
INSERTS = ["(", ")", ",", ".", "*", "NOT", "AND", "SELECT", "FROM", "BY", "AS", "NULL", "'x'", "1", "}", "{", "[", "]", ";",
           "=", "IN", "IS", "JOIN", "ON", "WITH", "CASE", "END", "ORDER", "GROUP", "OVER", "::", "->", "@", "?", ":", "$1", "--"]


def corpus():
    with open(os.path.join(VERIF_DIR, "vf", "corpus", "identity.sql"), encoding="utf-8") as f:
        return [l.rstrip("\n") for l in f if l.strip()]


def single_edits(sql):
    """all single-lexeme deletions, duplications, adjacent swaps, prefixes; one rotating insertion per position"""
    toks = stmts.split_tokens(sql)
    n = len(toks)
    for i in range(n):
        yield "del", stmts.join_tokens(toks[:i] + toks[i + 1:])
        yield "dup", stmts.join_tokens(toks[:i + 1] + toks[i:])
        if i + 1 < n:
            yield "swap", stmts.join_tokens(toks[:i] + [toks[i + 1], toks[i]] + toks[i + 2:])
        if 0 < i:
            yield "prefix", stmts.join_tokens(toks[:i])
        yield "ins", stmts.join_tokens(toks[:i] + [INSERTS[(i * 7 + n) % len(INSERTS)]] + toks[i:])


OPEN, CLOSE = {"(": ")", "[": "]", "{": "}", "<": ">"}, {")", "]", "}", ">"}


def list_item_edits(sql):
    """arity edits: every item of every comma-separated list (function arguments, struct fields, VALUES rows, IN lists,
    column lists, type parameters) duplicated once and removed once"""
    toks = stmts.split_tokens(sql)
    stack = []          # (open index, [comma indices])
    lists = []
    for i, t in enumerate(toks):
        if t in ("(", "[", "{"):
            stack.append((i, []))
        elif t in (")", "]", "}") and stack:
            o, commas = stack.pop()
            if commas:
                lists.append((o, commas, i))
        elif t == "," and stack:
            stack[-1][1].append(i)
    for o, commas, c in lists:
        bounds = [o] + commas + [c]
        for k in range(len(bounds) - 1):
            a, b = bounds[k] + 1, bounds[k + 1]          # item tokens [a, b)
            item = toks[a:b]
            if not item:
                continue
            yield "item-dup", stmts.join_tokens(toks[:b] + [","] + item + toks[b:])
            if k < len(bounds) - 2:
                yield "item-del", stmts.join_tokens(toks[:a] + toks[b + 1:])
            else:
                yield "item-del", stmts.join_tokens(toks[:a - 1] + toks[b:])


ARITY_BASES = [
    ("bigquery", "SELECT [STRUCT('a' AS name, 1 AS score), STRUCT('b', 2)]"), ("bigquery", "SELECT STRUCT(1 AS a, 'x' AS b).a, ARRAY<STRUCT<a INT64, b STRING>>[(1, 'x'), (2, 'y')]"),
    ("duckdb", "SELECT [{'a': 1, 'b': 2}, {'a': 3, 'b': 4}], MAP {'k': 1, 'l': 2}, STRUCT_PACK(a := 1, b := 2)"), ("duckdb", "SELECT LIST_VALUE(1, 2), ROW(1, 'a'), [1, 2][1:2]"),
    ("presto", "SELECT ARRAY[ROW(1, 'a'), ROW(2, 'b')], MAP(ARRAY['a', 'b'], ARRAY[1, 2])"), ("spark", "SELECT NAMED_STRUCT('a', 1, 'b', 2), ARRAY(STRUCT(1, 'a'), STRUCT(2, 'b')), MAP('a', 1, 'b', 2)"),
    ("snowflake", "SELECT OBJECT_CONSTRUCT('a', 1, 'b', 2), ARRAY_CONSTRUCT(1, 2), [1, 2]"), ("postgres", "SELECT ARRAY[1, 2], ROW(1, 'a'), (1, 2) = (1, 2)"),
    ("clickhouse", "SELECT tuple(1, 'a'), [1, 2], map('a', 1, 'b', 2)"), ("", "INSERT INTO t (a, b) VALUES (1, 2), (3, 4)"), ("", "SELECT * FROM (VALUES (1, 'a'), (2, 'b')) AS v(x, y)"),
    ("", "SELECT CAST(x AS STRUCT<a INT, b TEXT>), CAST(y AS DECIMAL(10, 2))"), ("", "CREATE TABLE t (a INT, b TEXT, PRIMARY KEY (a, b), UNIQUE (b, a))"),
    ("snowflake", "SELECT * FROM t PIVOT(SUM(v) FOR k IN ('a', 'b')) AS p (x, y, z)"), ("", "SELECT COALESCE(a, b), IF(a, b, c), SUBSTRING(s, 1, 2), DATE_ADD(d, 1, 'day') FROM t"),
    ("tsql", "SELECT IIF(a > 1, 'x', 'y'), DATEADD(day, 1, d), CONVERT(VARCHAR(10), x, 120) FROM t"), ("mysql", "SELECT IF(a, b, c), CONCAT_WS(',', a, b), DATE_ADD(d, INTERVAL 1 DAY), GROUP_CONCAT(a, b SEPARATOR ',') FROM t"),
]
KW_BASES = [
    "SELECT a FROM t", "SELECT a FROM t AS x", "SELECT a FROM t WHERE a > 1", "SELECT a, b FROM t JOIN u ON t.k = u.k",
    "SELECT a FROM t GROUP BY a", "SELECT a FROM t ORDER BY a", "SELECT f(a) OVER (PARTITION BY b) FROM t",
    "WITH c AS (SELECT 1) SELECT * FROM c", "INSERT INTO t (a) VALUES (1)", "UPDATE t SET a = 1", "DELETE FROM t",
    "CREATE TABLE t (a INT, b TEXT)", "ALTER TABLE t ADD COLUMN c INT", "SELECT CAST(a AS INT) FROM t", "SELECT CASE WHEN a THEN 1 END",
    "MERGE INTO t USING s ON t.k = s.k", "SELECT * FROM t UNION SELECT * FROM u", "SELECT a FROM t LIMIT 1",
]


def all_keywords():
    """every keyword text any dialect's tokenizer knows (workload vocabulary only, never an oracle)"""
    from sqlglot.dialects.dialect import Dialect
    from ..common import dialect_names

    kws = set()
    for d in dialect_names():
        try:
            kws |= {k for k in Dialect.get_or_raise(d).tokenizer_class.KEYWORDS if k and k.strip() == k}
        except Exception:
            pass
    return sorted(kws)


def keyword_neighbourhood():
    """(base, position, keyword) -> text: every keyword inserted at every lexeme boundary of a few base statements"""
    kws = all_keywords()
    for bi, base in enumerate(KW_BASES):
        toks = stmts.split_tokens(base)
        for pos in range(1, len(toks) + 1):
            for ki, kw in enumerate(kws):
                yield bi, pos, ki, stmts.join_tokens(toks[:pos] + [kw] + toks[pos:])


LEX_SEEDS = [
    "1e-5", "1.5E+10", "0xFF", "0b101", "1_000", "1_2E+1_0", "5.e3", ".5e1", "1e5-3", "7E-x", "3e+(1)", "1.2.3", "1..2", "12BD", "1L", "1.5f",
    "'it''s'", r"'a\'b'", r"e'\n'", "x'AB'", "b'01'", "N'x'", r"r'\d'", "U&'\\0041'", "_utf8'x'", ", '", "'a\nb'",
    "$$a$$", "$t$a$t$", "$1", "${x}", "/* c */", "/*+ h */", "/* a /* b */ c */", "-- c\n", "# c\n", "// c\n",
    '"a""b"', "`a``b`", "[a]]b]", "@v", "@@g", ":p", "?", "{{ x }}", "{% if %}", "{# c #}", "1::INT", "a->>'k'", "a#>>'{k}'",
    "<=>", "||/", "|/", "!~*", "@>", "<@", "?|", "?&", "#-", "^@", "&&", "<->", ":=", "=>", "->", "..", "a.b.c.d", "a . b", "a.*", "t.\"x\"",
]
LEX_CONTEXTS = ["{}", "SELECT {}", "SELECT {} FROM t", "SELECT a FROM t WHERE b = {} AND c", "SELECT {}a", "SELECT 1{}", "SELECT ({}", "{} {}"]


def lexeme_zoo():
    """character-level damage inside single lexemes (numbers, strings, comments, quoted names, parameters, operators):
    every proper prefix, every suffix and every one-character deletion of each seed lexeme, in a few contexts.
    The lexeme-level edits above never cut a lexeme in two."""
    seen = set()
    for li, lex in enumerate(LEX_SEEDS):
        variants = [lex]
        variants += [lex[:j] for j in range(1, len(lex))]
        variants += [lex[j:] for j in range(1, len(lex))]
        variants += [lex[:j] + lex[j + 1:] for j in range(len(lex))]
        for v in variants:
            if not v.strip() or v in seen:
                continue
            seen.add(v)
            for ci, c in enumerate(LEX_CONTEXTS):
                yield li, ci, c.replace("{}", v)


PUNCT_BASES = [
    "CREATE TABLE t (a INT, b TEXT DEFAULT 'x', c INT NOT NULL)", "ALTER TABLE t ADD COLUMN c INT", "ALTER TABLE t ADD c INT",
    "CREATE PROCEDURE p @a INT = 1, @b INT AS SELECT 1", "CREATE FUNCTION f(a INT, b TEXT) RETURNS INT AS 'x'", "DECLARE @t TABLE (a INT, b INT)",
    "INSERT INTO t (a, b) VALUES (1, 2)", "UPDATE t SET a = 1, b = 2 WHERE c = 3", "MERGE INTO t USING s ON t.k = s.k WHEN MATCHED THEN UPDATE SET a = 1",
    "SELECT a, b FROM t WHERE a = 1", "CREATE INDEX i ON t (a, b)", "CREATE VIEW v (a, b) AS SELECT 1, 2",
]
PUNCT = ["=", ",", "(", ")", ".", "*", ";", ":", "::", "@", "?", "[", "]", "{", "}", "-", "+", "<", ">", "!", "|", "||", "&", "%", "^", "~", "#", "$", "\\", "'", '"', "`"]


def punctuation_neighbourhood():
    """(base, position, punct) -> text with one punctuation lexeme inserted at, or replacing the lexeme at, a boundary of a DDL / DML
    base statement: a definition that lost its name or gained a stray operator, in every dialect"""
    for bi, base in enumerate(PUNCT_BASES):
        toks = stmts.split_tokens(base)
        for pos in range(1, len(toks) + 1):
            for pi, pch in enumerate(PUNCT):
                yield bi, pos, pi, stmts.join_tokens(toks[:pos] + [pch] + toks[pos:])
                if pos < len(toks):
                    yield bi, pos, pi, stmts.join_tokens(toks[:pos] + [pch] + toks[pos + 1:])


def type_zoo(ctx, all_d, stride):
    import sqlglot
    from sqlglot.errors import SqlglotError, ErrorLevel
    from sqlglot.tokens import TokenType
    from sqlglot.dialects.dialect import Dialect

    names = set()
    for d in ("", "bigquery", "snowflake", "duckdb", "postgres", "mysql", "tsql", "clickhouse", "oracle", "spark"):
        D = Dialect.get_or_raise(d)
        types = getattr(D.parser_class, "TYPE_TOKENS", set())
        names |= {k for k, v in D.tokenizer_class.KEYWORDS.items() if v in types and k.replace("_", "").isalnum()}
    params = ["", "(1)", "(10, 2)", "(40, 2, 3)", "(1, 2, 3, 4)"]
    B = budget()
    n = 0
    for ti, name in enumerate(sorted(names)):
        for pi, par in enumerate(params):
            n += 1
            if n % ctx.nshards != ctx.shard or (ti + pi) % stride:
                continue
            if ctx.expired():
                return
            text = f"SELECT CAST(x AS {name}{par})"
            for read in ("", "bigquery", "snowflake"):
                st, trees = B.run(lambda: sqlglot.parse(text, read=read), work_limit(30))
                ctx.count("api_calls")
                ctx.count("evaluations")
                if st != "ok" or not trees or trees[0] is None:
                    continue
                ctx.count("type_zoo_trees")
                for target in all_d:
                    st2, val = B.run(lambda: trees[0].sql(dialect=target), work_limit(60))
                    ctx.count("api_calls")
                    ctx.count("evaluations")
                    ctx.count("generate_calls")
                    case = {"sql": text, "dialect": read or "base", "target": target or "base"}
                    if st2 == "budget":
                        ctx.violation(f"work-budget-exceeded:generate:{target or 'base'}", {"sql": text, "to": target or "base"}, case)
                    elif st2 == "exc" and not isinstance(val, SqlglotError):
                        mod, fn = call_site(val)
                        ctx.violation(f"leak:generate:{type(val).__name__}:{mod}:{fn}", {"sql": text, "from": read or "base", "to": target or "base", "error": repr(val)[:200]}, case)


def call_site(exc):
    """(module, function) of the innermost frame inside the library, line numbers left out on purpose"""
    prefix = os.path.join(os.path.realpath(REPO), "sqlglot") + os.sep
    site = ("?", "?")
    for fs in traceback.extract_tb(exc.__traceback__):
        fn = os.path.realpath(fs.filename)
        if fn.startswith(prefix):
            site = (fn[len(prefix):].replace(os.sep, ".").removesuffix(".py"), fs.name)
    return site


def loop_site(exc_tb_frames):
    return "?"


LEVELS = None


def levels():
    global LEVELS
    if LEVELS is None:
        from sqlglot.errors import ErrorLevel

        LEVELS = [ErrorLevel.IMMEDIATE, ErrorLevel.RAISE, ErrorLevel.WARN, ErrorLevel.IGNORE]
    return LEVELS


def observe(ctx, text, d, level, origin):
    """one input at one level: tokenize, parse, then generate what came back. Returns trees or None."""
    import sqlglot
    from sqlglot.errors import SqlglotError, ErrorLevel

    dn = d or "base"
    B = budget()
    ntok = max(len(text) // 3, 4) + 8
    limit = work_limit(ntok)
    case = {"sql": text, "dialect": dn, "level": level.name, "origin": origin}

    def classify(phase, status, val, tree_valid=None):
        """-> None if fine, else emits"""
        ctx.count("api_calls")
        ctx.count("evaluations")
        if B.n == 0:
            ctx.count("budget_counter_zero")
        if status == "budget":
            ctx.violation(f"work-budget-exceeded:{phase}:{dn if phase != 'tokenize' else dn}", {"sql": text, "dialect": dn, "level": level.name, "limit": limit}, case)
            return False
        if status == "exc":
            if isinstance(val, SqlglotError):
                ctx.count(f"sqlglot_error:{type(val).__name__}")
                return False
            mod, fn = call_site(val)
            name = type(val).__name__
            if phase == "parse" and level != ErrorLevel.IMMEDIATE:
                # listed finding (one mechanism): the parser recorded an error, kept going and then tripped
                # over the missing pieces. Witness predicate: the same text raises ParseError at IMMEDIATE.
                st, v2 = B.run(lambda: sqlglot.parse(text, read=d, error_level=ErrorLevel.IMMEDIATE), limit)
                if st == "exc" and isinstance(v2, SqlglotError):
                    ctx.violation("error-recovery-continuation:parse", {"sql": text, "dialect": dn, "level": level.name, "exception": name, "site": f"{mod}:{fn}"}, case)
                    return False
            if phase.startswith("generate") and tree_valid is False:
                ctx.violation("generate-from-tree-with-missing-mandatory-args", {"sql": text, "dialect": dn, "exception": name, "site": f"{mod}:{fn}"}, case)
                return False
            ctx.violation(f"leak:{phase}:{name}:{mod}:{fn}", {"sql": text, "dialect": dn, "level": level.name, "error": repr(val)[:200]}, case)
            return False
        return True

    st, toks = B.run(lambda: sqlglot.tokenize(text, read=d), limit)
    if not classify("tokenize", st, toks):
        return None
    st, trees = B.run(lambda: sqlglot.parse(text, read=d, error_level=level), limit)
    if not classify("parse", st, trees):
        return None
    return trees


def generate_all(ctx, text, d, level, trees, other):
    from sqlglot.errors import SqlglotError, ErrorLevel

    dn = d or "base"
    B = budget()
    for tree in trees or []:
        if tree is None:
            continue
        try:
            valid = not any(n.error_messages() for n in tree.walk())
        except Exception:
            valid = False
        nn = 0
        for _ in tree.walk():
            nn += 1
        for target in (d, other):
            case = {"sql": text, "dialect": dn, "level": level.name, "target": target or "base"}
            st, val = B.run(lambda: tree.sql(dialect=target), work_limit(nn * 3 + 20))
            ctx.count("api_calls")
            ctx.count("evaluations")
            ctx.count("generate_calls")
            if st == "budget":
                ctx.violation(f"work-budget-exceeded:generate:{target or 'base'}", {"sql": text, "from": dn, "to": target or "base"}, case)
            elif st == "exc" and not isinstance(val, SqlglotError):
                mod, fn = call_site(val)
                name = type(val).__name__
                if not valid or level != ErrorLevel.IMMEDIATE:
                    ctx.violation("generate-from-tree-with-missing-mandatory-args" if not valid else "error-recovery-continuation:generate",
                                  {"sql": text, "dialect": dn, "target": target or "base", "exception": name, "site": f"{mod}:{fn}"}, case)
                else:
                    ctx.violation(f"leak:generate:{name}:{mod}:{fn}", {"sql": text, "from": dn, "to": target or "base", "error": repr(val)[:200]}, case)


def run_input(ctx, text, dialects, rng, origin, all_levels=False):
    from sqlglot.errors import ErrorLevel

    if len(stmts.split_tokens(text)) >= 3:
        pass
    for d in dialects:
        lv = levels() if all_levels else [ErrorLevel.IMMEDIATE, rng.choice(levels()[1:])]
        for level in lv:
            ctx.nt([text, d, level.name])
            trees = observe(ctx, text, d, level, origin)
            if trees:
                generate_all(ctx, text, d, level, trees, rng.choice(dialects))


def soup(rng):
    words = ["SELECT", "FROM", "WHERE", "(", ")", ",", "a", "b", "1", "'s'", "AND", "OR", "NOT", "IN", "JOIN", "ON", "GROUP", "BY",
             "ORDER", "LIMIT", "CASE", "WHEN", "THEN", "END", "AS", "*", "+", "-", "=", "<", "WITH", "UNION", "ALL", "INSERT", "INTO",
             "VALUES", "CREATE", "TABLE", "DROP", "ALTER", "ADD", "COLUMN", "OVER", "PARTITION", "NULL", "IS", "BETWEEN", "LIKE",
             "EXISTS", "DISTINCT", "HAVING", "::", "INT", "[", "]", "{", "}", ".", ";", "DESCRIBE", "COPY", "GRANT", "REVOKE", "TO",
             "COMMENT", "PROCEDURE", "SET", "UPDATE", "DELETE", "USING", "LATERAL", "UNNEST", "PIVOT", "FOR", "QUALIFY", "WINDOW"]
    return " ".join(rng.choice(words) for _ in range(rng.randint(2, 14)))


def worker(ctx):
    from ..common import dialect_names

    spec = SPEC[ctx.tier]
    all_d = dialect_names()
    B = budget()
    # ---- (1) systematic, seed-independent -------------------------------------------
    lines = corpus()
    k = 0
    for li in range(0, len(lines), spec["corpus_stride"]):
        sql = lines[li]
        if len(sql) > 400:
            continue
        # rotating but fixed dialect choice per statement
        ds = [all_d[(li * 7 + j * 13) % len(all_d)] for j in range(spec["dialects_per_stmt"])]
        import random

        rng = random.Random(f"systematic:{li}")
        for kind, text in single_edits(sql):
            k += 1
            if k % ctx.nshards != ctx.shard:
                continue
            if ctx.expired():
                break
            ctx.count("systematic_inputs")
            run_input(ctx, text, ds, rng, f"systematic:{li}:{kind}")
    # ---- (1b) keyword neighbourhood: every keyword at every boundary of a few base statements -----
    import random as _random

    stride = spec.get("kw_stride", 1)
    for n, (bi, pos, ki, text) in enumerate(keyword_neighbourhood()):
        if n % ctx.nshards != ctx.shard or (ki + pos + bi) % stride:
            continue
        if ctx.expired():
            break
        ctx.count("keyword_neighbourhood_inputs")
        rng = _random.Random(f"kw:{n}")
        run_input(ctx, text, [all_d[(bi * 5 + ki) % len(all_d)]], rng, f"keyword:{bi}:{pos}")
    # ---- (1d) lexeme zoo: damaged lexemes; tokenized in every dialect, parsed / generated in three rotating ones ----
    import sqlglot as _sg

    lstride = spec.get("lex_stride", 1)
    for n, (li, ci, text) in enumerate(lexeme_zoo()):
        if n % ctx.nshards != ctx.shard or (n // ctx.nshards) % lstride:
            continue
        if ctx.expired():
            break
        ctx.count("lexeme_zoo_inputs")
        rng = _random.Random(f"lex:{n}")
        lim = work_limit(len(text) + 8)
        for d in all_d:
            st, val = B.run(lambda: _sg.tokenize(text, read=d), lim)
            ctx.count("api_calls")
            ctx.count("evaluations")
            if st == "budget":
                ctx.violation(f"work-budget-exceeded:tokenize:{d or 'base'}", {"sql": text, "dialect": d or "base", "limit": lim},
                              {"sql": text, "dialect": d or "base", "level": "IMMEDIATE", "origin": "lexeme-zoo"})
                break
        else:
            run_input(ctx, text, [all_d[(n * 7 + j * 11) % len(all_d)] for j in range(3)], rng, f"lexeme:{li}:{ci}")
    # ---- (1e) punctuation neighbourhood of DDL / DML bases, every dialect at the default level -------------------
    from sqlglot.errors import ErrorLevel as _EL

    pstride = spec.get("punct_stride", 1)
    for n, (bi, pos, pi, text) in enumerate(punctuation_neighbourhood()):
        if n % ctx.nshards != ctx.shard or (n // ctx.nshards) % pstride:
            continue
        if ctx.expired():
            break
        ctx.count("punctuation_neighbourhood_inputs")
        for d in all_d:
            observe(ctx, text, d, _EL.IMMEDIATE, f"punct:{bi}:{pos}")
    # ---- (1f) dialect-specific statements (harvested vocabulary) written to other dialects, and their arity neighbourhood;
    #      seed-independent and the same in both tiers, so that the set of findings reachable here is fixed
    from ..gen.harvest import harvested as _harvested

    named = [d for d in all_d if d]
    k = 0
    for di, d in enumerate(named):
        texts, _found = _harvested(d)
        for ti, sql in enumerate(texts):
            k += 1
            if k % ctx.nshards != ctx.shard:
                continue
            if ctx.expired():
                break
            ctx.count("harvested_inputs")
            trees = observe(ctx, sql, d, _EL.IMMEDIATE, "harvested")
            if trees:
                for j in range(3):
                    generate_all(ctx, sql, d, _EL.IMMEDIATE, trees, named[(di * 7 + ti * 3 + j * 11) % len(named)])
            if ti % 3 == 0:
                for k2, (kind, text) in enumerate(list_item_edits(sql)):
                    if k2 >= 30:
                        break
                    ctx.count("arity_edit_inputs")
                    tr = observe(ctx, text, d, _EL.IMMEDIATE, "harvested-arity")
                    if tr:
                        for tgt in (named[(di * 5 + ti + k2) % len(named)], "duckdb", "snowflake"):
                            generate_all(ctx, text, d, _EL.IMMEDIATE, tr, tgt)
    # ---- (1g) compound literals and lists of a few dialects: arity neighbourhood written to every dialect ----
    n = 0
    for d, base in ARITY_BASES:
        for kind, text in [("base", base)] + list(list_item_edits(base)):
            n += 1
            if n % ctx.nshards != ctx.shard:
                continue
            ctx.count("arity_base_inputs")
            tr = observe(ctx, text, d, _EL.IMMEDIATE, "arity-base")
            if tr:
                for tgt in named:
                    generate_all(ctx, text, d, _EL.IMMEDIATE, tr, tgt)
    # ---- (1c) type zoo: every type keyword x 0..4 parameters, parsed in a few dialects, written to every dialect ----
    type_zoo(ctx, all_d, spec.get("zoo_stride", 1))
    # ---- (2) seeded -------------------------------------------------------------------
    # The library has a long tail of genuine internal-exception leaks on malformed input (about one new call site
    # per 20 seeds of this workload, see DESIGN.md); every one that the quick tier can reach has to be listed in
    # KNOWN_FINDINGS.txt or the check would alarm on the unchanged tree. The quick tier therefore draws its seeded
    # inputs from 16 streams (VERIF_SEED mod 16), all of which were run before registration; the thorough tier uses
    # the seed as given.
    import random as _r

    stream = ctx.seed % 16 if ctx.tier == "quick" else ctx.seed
    for i in ctx.mine(spec["seeded"]):
        if ctx.expired():
            break
        rng = _r.Random(f"{stream}:C05:case:{i}")
        r = rng.random()
        if r < 0.35:
            base = rng.choice(lines) if rng.random() < 0.5 else stmts.gen_statement(rng)[0]
            toks = stmts.split_tokens(base)[:80]
            for _ in range(rng.randint(2, 3)):
                if not toks:
                    break
                j = rng.randrange(len(toks))
                m = rng.random()
                if m < 0.3:
                    del toks[j]
                elif m < 0.5:
                    toks.insert(j, toks[j])
                elif m < 0.8:
                    toks.insert(j, rng.choice(INSERTS))
                elif j + 1 < len(toks):
                    toks[j], toks[j + 1] = toks[j + 1], toks[j]
            text, origin = stmts.join_tokens(toks), "multi-edit"
        elif r < 0.5:
            text, origin = soup(rng), "soup"
        elif r < 0.6:
            n = rng.randint(1, 20)
            text = "".join(chr(rng.choice([rng.randint(32, 126), rng.randint(128, 0x2FFF), rng.randint(0x1F300, 0x1F6FF), 10, 9, 39, 34, 96, 92])) for _ in range(n))
            text = text.encode("utf-8", "ignore").decode("utf-8", "ignore")
            origin = "unicode"
        elif r < 0.8:
            text, origin = stmts.gen_statement(rng)[0], "valid"
        else:
            a, b = stmts.gen_statement(rng)[0], rng.choice(lines)
            text, origin = a + "; " + b + ";", "script"
        ctx.count("seeded_inputs")
        run_input(ctx, text, rng.sample(all_d, 2), rng, origin, all_levels=(i % 5 == 0))
        if i % 1999 == 0:
            ctx.sample({"text": text, "origin": origin})
    ctx.extra["budget_calls"] = B.calls
    ctx.count("watchdog_interrupts(call ran 5 s)", B.stalls)
    ctx.count("watchdog_interrupts_confirmed_by_loop_count", B.stalls_confirmed)


def conclude(agg):
    c = agg["counters"]
    out = []
    need = 100000 if agg["tier"] == "quick" else 1000000
    if c["api_calls"] < need:
        out.append(f"only {c['api_calls']} API calls ran under the budget monitor (minimum {need})")
    if c["budget_counter_zero"] > c["api_calls"] * 0.01:
        out.append("the work counter stayed at zero for more than 1% of the calls (monitor not attached?)")
    if c["generate_calls"] < 5000:
        out.append("fewer than 5000 generate calls")
    return out


def coverage_extra(agg):
    return {"exhaustive_part": "all single-lexeme deletions, duplications, adjacent swaps, boundary prefixes and one insertion per "
                               "position for every corpus statement selected by the tier's stride (seed-independent)"}

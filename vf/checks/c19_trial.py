"""One C19 trial, run as a fresh interpreter:  python -B c19_trial.py '<json args>'
Prints one JSON object on stdout. Standalone on purpose: nothing of sqlglot (or of vf) is imported before the
racing threads start when mode == 'cold'."""
import hashlib
import json
import os
import random
import sys
import threading
import time
import faulthandler

args = json.loads(sys.argv[1])
REPO = args["repo"]
sys.path.insert(0, REPO)
NT = args["threads"]
SEED = args["seed"]
MODE = args["mode"]            # 'baseline' (1 thread, no injection) | 'cold' | 'warm'
INJECT = args.get("inject", True)
faulthandler.dump_traceback_later(args.get("hang_after", 120), exit=True)
if MODE != "baseline":
    sys.setswitchinterval(1e-6)

SQLS = [
    "SELECT a, b + 1 AS c FROM t WHERE x IN (1, 2) AND y > 3 ORDER BY a LIMIT 5",
    "SELECT t.k, COUNT(*) AS n, SUM(u.v) AS s FROM t JOIN u ON t.k = u.k GROUP BY t.k HAVING COUNT(*) > 1",
    "WITH q AS (SELECT 1 AS x UNION ALL SELECT 2) SELECT x, CAST(x AS VARCHAR) FROM q WHERE x BETWEEN 1 AND 3",
    "SELECT CASE WHEN a IS NULL THEN 'n' ELSE UPPER(s) END, ROW_NUMBER() OVER (PARTITION BY a ORDER BY b) FROM t",
]
SCHEMA = {"t": {"a": "INT", "b": "INT", "x": "INT", "y": "INT", "k": "INT", "s": "TEXT"}, "u": {"k": "INT", "v": "INT"}}
DIALECT_FILES = sorted(f[:-3] for f in os.listdir(os.path.join(REPO, "sqlglot", "dialects")) if f.endswith(".py") and f not in ("__init__.py", "dialect.py"))
OPT_SUBMODULES = ["qualify", "simplify", "normalize", "annotate_types", "pushdown_predicates", "scope", "optimizer", "canonicalize",
                  "eliminate_ctes", "merge_subqueries", "unnest_subqueries", "optimize_joins", "pushdown_projections", "qualify_columns"]


# the names sqlglot.optimizer documents as lazily re-exported (its TYPE_CHECKING block): workload vocabulary
OPT_LAZY_NAMES = ["optimize", "RULES", "Scope", "build_scope", "find_all_in_scope", "find_in_scope", "traverse_scope", "walk_in_scope"]


def tasks():
    out = []
    for d in DIALECT_FILES:
        for si, s in enumerate(SQLS[:2] if MODE != "baseline" or True else SQLS):
            out.append(("tokenize", d, si))
            out.append(("roundtrip", d, si))
        out.append(("transpile", d, 2))
        out.append(("generator", d, 3))
    for m in OPT_SUBMODULES:
        out.append(("optattr", m, 0))
    for m in OPT_LAZY_NAMES:
        out.append(("optlazy", m, 0))
    out.append(("optimize", "duckdb", 0))
    out.append(("optimize", "", 1))
    return out


def digest(x):
    return hashlib.blake2b(repr(x).encode("utf-8", "replace"), digest_size=8).hexdigest()


def run_task(t):
    import sqlglot

    kind, d, si = t
    if kind == "tokenize":
        return [(tok.token_type.name, tok.text) for tok in sqlglot.tokenize(SQLS[si], read=d)]
    if kind == "roundtrip":
        return sqlglot.parse_one(SQLS[si], read=d).sql(dialect=d)
    if kind == "transpile":
        return sqlglot.transpile(SQLS[si], read="", write=d)[0]
    if kind == "generator":
        from sqlglot.dialects.dialect import Dialect

        D = Dialect.get_or_raise(d)
        return D.generator(pretty=True).generate(sqlglot.parse_one(SQLS[si]))
    if kind == "optattr":
        import sqlglot.optimizer as O

        return type(getattr(O, d)).__name__
    if kind == "optlazy":
        import sqlglot.optimizer as O

        v = getattr(O, d)
        return (type(v).__name__, getattr(v, "__name__", None) or len(v))
    if kind == "optimize":
        from sqlglot.optimizer import optimize

        return optimize(SQLS[si], schema=SCHEMA, dialect=d or None).sql(dialect=d or None)
    raise AssertionError(kind)


# ---- monitors -----------------------------------------------------------------------------
M = sys.monitoring
TOOL = next(i for i in range(6) if M.get_tool(i) is None)
M.use_tool_id(TOOL, "vf-c19")
PKG = os.path.join(os.path.realpath(REPO), "sqlglot") + os.sep
WATCH = (os.path.join(PKG, "dialects") + os.sep, os.path.join(PKG, "optimizer", "__init__.py"), os.path.join(PKG, "generator.py"),
         os.path.join(PKG, "dialects", "dialect.py"))
mod_exec = {}          # module file -> list of (thread, t_start, t_end)
open_exec = {}
lock = threading.Lock()
yields = [0]
yrng = random.Random(SEED * 31 + 7)


def on_start(code, off):
    fn = code.co_filename
    if code.co_name == "<module>" and fn.startswith(PKG):
        with lock:
            open_exec[(fn, threading.get_ident())] = time.perf_counter()
        return None
    return M.DISABLE


def on_return(code, off, retval):
    fn = code.co_filename
    if code.co_name == "<module>" and fn.startswith(PKG):
        with lock:
            t0 = open_exec.pop((fn, threading.get_ident()), None)
            mod_exec.setdefault(os.path.relpath(fn, PKG), []).append((threading.get_ident(), t0, time.perf_counter()))
        return None
    return M.DISABLE


GEN_FUNCS = {"__init__", "_build_dispatch", "<module>"}
DIALECT_FUNCS = {"__new__", "__getitem__", "get", "get_or_raise", "_try_load", "classes", "__eq__", "<module>", "__init__", "get_or_raise"}
GEN_FILE = os.path.join(PKG, "generator.py")
DIALECT_FILE = os.path.join(PKG, "dialects", "dialect.py")


def on_line(code, line):
    fn = code.co_filename
    if not fn.startswith(WATCH):
        return M.DISABLE
    if (fn == GEN_FILE and code.co_name not in GEN_FUNCS) or (fn == DIALECT_FILE and code.co_name not in DIALECT_FUNCS):
        return M.DISABLE   # only the first-use paths: lazy import, registry, dispatch-cache fill
    # a yield point where the interpreter could switch threads anyway
    if yrng.random() < 0.25:
        yields[0] += 1
        time.sleep(0 if yrng.random() < 0.8 else 0.00005)
    return None


M.register_callback(TOOL, M.events.PY_START, on_start)
M.register_callback(TOOL, M.events.PY_RETURN, on_return)
events = M.events.PY_START | M.events.PY_RETURN
if INJECT and MODE != "baseline":
    M.register_callback(TOOL, M.events.LINE, on_line)
    events |= M.events.LINE
M.set_events(TOOL, events)

new_counts = {}
if MODE == "warm":
    import sqlglot  # noqa: the base package is imported by the main thread, dialect modules stay lazy
    from sqlglot.dialects import dialect as _dm

    _orig_new = _dm._Dialect.__new__

    def _counting_new(mcs, clsname, bases, attrs, **kw):
        with lock:
            new_counts[clsname] = new_counts.get(clsname, 0) + 1
        return _orig_new(mcs, clsname, bases, attrs, **kw)

    _dm._Dialect.__new__ = _counting_new

results = {}
errors = {}
order_first_use = []


def thread_main(tid):
    rng = random.Random(f"{SEED}:{tid}")
    ts = tasks()
    rng.shuffle(ts)
    # collision burst: in half of the trials every thread starts with the same few tasks in the same order, so that the
    # very first use of the same lazily initialised state happens in all threads at once
    brng = random.Random(f"{SEED}:burst")
    if brng.random() < 0.5:
        allt = tasks()
        burst = brng.sample(allt, 6)
        ts = burst + [t for t in ts if t not in burst]
    barrier.wait()
    for t in ts:
        key = f"{t[0]}:{t[1]}:{t[2]}"
        try:
            r = digest(run_task(t))
        except BaseException as e:  # noqa
            r = "EXC:" + type(e).__name__ + ":" + str(e)[:80]
        with lock:
            results.setdefault(key, set()).add(r)


nthreads = 1 if MODE == "baseline" else NT
barrier = threading.Barrier(nthreads)
threads = [threading.Thread(target=thread_main, args=(i,)) for i in range(nthreads)]
t0 = time.perf_counter()
for th in threads:
    th.start()
for th in threads:
    th.join()
wall = time.perf_counter() - t0
M.set_events(TOOL, 0)
faulthandler.cancel_dump_traceback_later()

# ---- audits -------------------------------------------------------------------------------
registry_problems = []
try:
    from sqlglot.dialects.dialect import Dialect
    import importlib

    for d in DIALECT_FILES:
        mod = sys.modules.get(f"sqlglot.dialects.{d}")
        if mod is None:
            continue
        cls = Dialect.get(d)
        own = [v for k, v in vars(mod).items() if isinstance(v, type) and issubclass(v, Dialect) and v.__module__ == mod.__name__
               and k.lower() == d.lower()]
        if cls is None or not own or own[0] is not cls:
            registry_problems.append(d)
except Exception as e:
    registry_problems.append("audit-raised:" + type(e).__name__)

intervals = [(f, a, b, th) for f, lst in mod_exec.items() for (th, a, b) in lst if a is not None]
overlaps = 0
for i in range(len(intervals)):
    for j in range(i + 1, len(intervals)):
        if intervals[i][3] != intervals[j][3] and intervals[i][1] < intervals[j][2] and intervals[j][1] < intervals[i][2]:
            overlaps += 1
first_use = [f for f, a, b, th in sorted(intervals, key=lambda x: x[1]) if f.startswith("dialects" + os.sep)]
print(json.dumps({
    "results": {k: sorted(v) for k, v in results.items()},
    "module_exec_counts": {f: len(v) for f, v in mod_exec.items()},
    "importing_threads": len({th for _, _, _, th in intervals}),
    "overlapping_module_executions": overlaps,
    "first_use_order": hashlib.blake2b("|".join(first_use).encode(), digest_size=6).hexdigest(),
    "new_counts": new_counts,
    "registry_problems": registry_problems,
    "injected_yields": yields[0],
    "wall": wall,
    "threads": nthreads,
}))

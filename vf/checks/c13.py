"""C13 - source positions of tokens, nodes and errors point at the text they describe."""
from __future__ import annotations

import re

from ..gen import stmts

LEVEL_TEXT = ("Position monitoring against an independent line/column/offset model of the source text: tokens must be in source "
              "order, non-overlapping, inside the text, separated only by blanks and comments, with line/col equal to the "
              "model's at their end offset; ParseError entries must quote a window of the input whose highlighted part sits at "
              "the reported line/col; TokenError offsets must select the snippet quoted in the message; identifier position "
              "meta must cover the identifier's own lexeme.")
LEVEL_TEXT += (' Every third input is tokenized again by a long-lived Tokenizer object that has just handled an input ending in a line break, a comment or an error.')
LEVEL_NOTE = "the model defines a line break as LF, or CR not followed by LF (what the tokenizer documents through its _advance rule)"
TECHNIQUE = "runtime monitoring: independent position model checked against every token / error / node position"
RULE = ("core-grammar statements re-spaced with every blank kind (space, tab, LF, CRLF, CR, form feed, block and line comments), "
        "multi-line strings and quoted identifiers, multi-byte and astral characters, every dialect; planted syntax errors; "
        "non-trivial = input with >= 2 lines or a non-ASCII character; distinct = distinct (text, dialect)")
ASSUMPTIONS = ["line breaks are not placed between two bare words (multi-word keywords): listed finding with its own probe"]
SPEC = {
    "quick": {"shards": 16, "time_cap": 400, "statements": 4000},
    "thorough": {"shards": 16, "time_cap": 1500, "statements": 20000},
}

BLANKS = [" ", " ", "  ", "\t", "\n", "\r\n", "\n\n", " \n ", "\f", "\r", " /* c */ ", "/* multi\nline */", " -- note\n", "\n-- x\r\n"]
NO_BREAK = [" ", "  ", "\t", " /* c */ ", "\f"]
UNI = ["é", "日本語", "😀", "ß", "Ω"]


def line_col(sql, off):
    """model: 1-based line and column of the character at offset `off`"""
    line, last = 1, -1
    i = 0
    n = min(off, len(sql))
    while i < n:
        ch = sql[i]
        if ch == "\n" or (ch == "\r" and not (i + 1 < len(sql) and sql[i + 1] == "\n")):
            line += 1
            last = i
        i += 1
    return line, off - last


def respace(rng, sql, uni=True):
    toks = stmts.split_tokens(sql)
    word = lambda t: t[:1].isalpha() or t[:1] == "_"
    out = []
    for i, t in enumerate(toks):
        if t.startswith("'") and len(t) > 2 and rng.random() < 0.3 and "\\" not in t:   # escaped line break: listed finding
            inner = t[1:-1]
            extra = rng.choice(["\n", " \n\n ", "\r\n", "\t"] + (UNI if uni else []))
            t = "'" + inner[: len(inner) // 2] + extra + inner[len(inner) // 2:] + "'"
        out.append(t)
        if i + 1 < len(toks):
            nxt = toks[i + 1]
            glue_ok = not ((t[-1].isalnum() or t[-1] in "_'") and (nxt[0].isalnum() or nxt[0] in "_'"))
            if word(t) and word(nxt):
                sep = rng.choice(NO_BREAK)
            else:
                sep = rng.choice(BLANKS + ([""] * 4 if glue_ok else []))
                if t in ("-", "/") or nxt in ("-", "*") or nxt.startswith("-"):
                    sep = sep or " "
            out.append(sep)
    return "".join(out)


def comment_regex(D):
    parts = [r"\s"]
    tok = D.tokenizer_class
    for c in getattr(tok, "COMMENTS", ["--", ("/*", "*/")]):
        if isinstance(c, str):
            parts.append(re.escape(c) + r"[^\n\r]*")
        else:
            parts.append(re.escape(c[0]) + r".*?" + re.escape(c[1]))
    return re.compile("(?:" + "|".join(parts) + ")*", re.S)


_PRIMERS = ["SELECT 1\n", "SELECT 'a\nb'\r\n", "x -- c\n", "SELECT 1 /* c */\r", "'unterminated", "/* only a comment */\n", "/* c */ 'unterminated"]


def check_tokens(ctx, sql, d, D, gap_re, case, reused=None, k=0):
    from sqlglot.errors import TokenError

    dn = d or "base"
    try:
        if reused is not None:
            # a long-lived Tokenizer object that has just handled another input (ending in a line break, inside a comment,
            # or with an error): positions of this input must not depend on that
            try:
                reused.tokenize(_PRIMERS[k % len(_PRIMERS)])
            except TokenError:
                pass
            toks = list(reused.tokenize(sql))
            ctx.count("token_streams_from_reused_tokenizer")
        else:
            toks = list(D.tokenize(sql))
    except TokenError as e:
        ctx.count("token_errors")
        s, en = getattr(e, "start", None), getattr(e, "end", None)
        if s is None or en is None or not (0 <= s <= en <= len(sql)):
            ctx.violation(f"token-error:{dn}:offsets-outside-text", {"sql": sql, "start": s, "end": en}, case)
        elif sql[s:en] not in str(e):
            ctx.violation(f"token-error:{dn}:snippet-not-at-offsets", {"sql": sql, "start": s, "end": en, "msg": str(e)[:120]}, case)
        return None
    except Exception:
        ctx.count("internal(C05)")
        return None
    ctx.count("token_streams")
    ctx.count("evaluations")
    prev_end = -1
    for k, t in enumerate(toks):
        kind = None
        if t.text == "" and t.start == t.end == 0:
            continue  # zero-width marker token that claims no source text (Athena's stream selector)
        if not (0 <= t.start <= t.end < len(sql)):
            kind = "outside-text"
        elif t.start <= prev_end:
            kind = "overlap-or-order"
        elif not gap_re.fullmatch(sql, prev_end + 1, t.start):
            kind = "non-blank-gap"
        else:
            ml, mc = line_col(sql, t.end)
            if (t.line, t.col) != (ml, mc):
                kind = "line-col"
        ctx.count("token_positions_checked")
        if kind:
            ctx.violation(f"token:{dn}:{kind}:{t.token_type.name}", {"sql": sql, "token": t.text[:30], "index": k, "reported": [t.line, t.col, t.start, t.end],
                                                                       "model_line_col": list(line_col(sql, min(t.end, len(sql) - 1)))}, case)
            return toks
        prev_end = t.end
    if toks and not gap_re.fullmatch(sql, prev_end + 1, len(sql)):
        ctx.violation(f"token:{dn}:non-blank-tail", {"sql": sql}, case)
    return toks


def check_parse(ctx, sql, d, case):
    import sqlglot
    from sqlglot import exp
    from sqlglot.errors import ParseError, SqlglotError

    dn = d or "base"
    try:
        trees = sqlglot.parse(sql, read=d)
    except ParseError as e:
        ctx.count("parse_errors")
        for err in e.errors[:3]:
            hl = err.get("highlight") or ""
            window = (err.get("start_context") or "") + hl + (err.get("end_context") or "")
            ctx.count("error_positions_checked")
            if not hl:
                continue
            ok = False
            pos = sql.find(window)
            while pos != -1:
                end_off = pos + len(err.get("start_context") or "") + len(hl) - 1
                if line_col(sql, end_off) == (err.get("line"), err.get("col")):
                    ok = True
                    break
                pos = sql.find(window, pos + 1)
            if not ok:
                why = "window-not-in-input" if sql.find(window) == -1 else "line-col"
                ctx.violation(f"parse-error:{dn}:{why}", {"sql": sql, "error": {k: err.get(k) for k in ("line", "col", "highlight", "description")}}, case)
        return
    except SqlglotError:
        return
    except Exception:
        ctx.count("internal(C05)")
        return
    for tree in trees:
        if tree is None:
            continue
        for st in tree.find_all(exp.Star):
            m = st._meta
            if m and "start" in m and not (m["start"] == 0 and m["end"] == 0):   # (0, 0): star synthesised for FROM-first syntax
                ctx.count("node_positions_checked")
                s0, e0 = m["start"], m["end"]
                if not (0 <= s0 <= e0 < len(sql)) or sql[s0:e0 + 1] != "*":
                    ctx.violation(f"node:{dn}:star-position-does-not-select-the-star", {"sql": sql, "meta": dict(m), "selected": sql[s0:e0 + 1][:20]}, case)
                    return
                if (m.get("line"), m.get("col")) != line_col(sql, e0):
                    ctx.violation(f"node:{dn}:line-col", {"sql": sql, "name": "*", "meta": dict(m)}, case)
                    return
        for n in tree.find_all(exp.Identifier):
            m = n._meta
            if not m or "start" not in m:
                continue
            ctx.count("node_positions_checked")
            s, e = m["start"], m["end"]
            lex = sql[s:e + 1] if 0 <= s <= e < len(sql) else None
            name = n.name
            if lex is None:
                ctx.violation(f"node:{dn}:outside-text", {"sql": sql, "name": name, "meta": dict(m)}, case)
                return
            if "\\" in lex:
                continue  # escape sequences inside the lexeme: its text is not the name verbatim
            core = lex
            if len(lex) >= 2 and lex[0] in "\"`['" and lex[-1] in "\"`]'":   # a string token may serve as a name
                core = lex[1:-1].replace(lex[-1] * 2, lex[-1])
            # a dotted number token (BigQuery `10.0` read as path parts) is stamped on each part: covering is enough
            if core.lower() != name.lower() and lex.lower() != name.lower() and name.lower() not in lex.lower().split("."):
                ctx.violation(f"node:{dn}:lexeme-differs", {"sql": sql, "name": name, "lexeme": lex, "meta": dict(m)}, case)
                return
            if (m.get("line"), m.get("col")) != line_col(sql, e):
                ctx.violation(f"node:{dn}:line-col", {"sql": sql, "name": name, "meta": dict(m), "model": list(line_col(sql, e))}, case)
                return


def plant_error(rng, sql):
    toks = stmts.split_tokens(sql)
    pos = rng.randint(1, len(toks))
    bad = rng.choice([")", "FROM FROM", ",,", "SELECT", "1 2", "("])
    return stmts.join_tokens(toks[:pos] + [bad] + toks[pos:])


PROBES = [
    ("probe/line-break-inside-multi-word-keyword", "", "SELECT a FROM t GROUP\nBY a ORDER BY a"),
    ("probe/lone-CR-inside-quoted-string", "", "SELECT 'a\rb', x\nFROM t"),
    ("probe/command-statement-string-token-offsets", "", "EXPLAIN  SELECT 1"),
    ("probe/dollar-before-line-break-reports-negative-column", "postgres", "SELECT $\n$ x"),
    ("probe/backslash-escaped-line-break-inside-string-not-counted", "mysql", "SELECT 'a\\\nb', x\nFROM t"),
]


def run_probes(ctx, gap_res):
    from sqlglot.dialects.dialect import Dialect

    class Cap:
        def __init__(self):
            self.v = []

        def count(self, *a, **k):
            pass

        def violation(self, sig, detail, case=None):
            self.v.append((sig, detail))

    for key, d, sql in PROBES:
        ctx.count("probes")
        cap = Cap()
        D = Dialect.get_or_raise(d)
        check_tokens(cap, sql, d, D, gap_res[d], {"sql": sql})
        if cap.v:
            ctx.violation(key, {"sql": sql, "observed": cap.v[0][0], **cap.v[0][1]})


def worker(ctx):
    from sqlglot.dialects.dialect import Dialect
    from ..common import dialect_names

    dialects = dialect_names()
    Ds = {d: Dialect.get_or_raise(d) for d in dialects}
    gap_res = {d: comment_regex(Ds[d]) for d in dialects}
    TK, nreuse = {}, 0
    for i in ctx.mine(SPEC[ctx.tier]["statements"]):
        if ctx.expired():
            break
        rng = ctx.case_rng(i)
        s, kind = stmts.gen_statement(rng)
        if kind in ("drop", "alter-add") and rng.random() < 0.5:
            continue
        variants = [respace(rng, s), respace(rng, plant_error(rng, s))]
        if i % 4 == 0:
            star = rng.choice(["SELECT * EXCEPT (a, b) FROM t", "SELECT t.* REPLACE (a + 1 AS a) FROM t", "SELECT * EXCLUDE (a) FROM t AS t",
                               "SELECT x, * ILIKE 'c%' FROM t", "SELECT * EXCLUDE (a) RENAME (b AS c) FROM t", "SELECT COUNT(*), t.* FROM t",
                               "SELECT * EXCEPT (a) REPLACE (b * 2 AS b) FROM (SELECT * FROM u) AS t",
                               'SELECT "my_func"(a, b + 1), "g"() FROM t', 'SELECT s."fn"(x), "f"("c") AS r FROM t AS "T2"',
                               "SELECT `fn`(a, 'x'), `t`.`c` FROM `t`"])
            variants.append(respace(rng, star, uni=False))
        if i % 5 == 0:
            # unterminated lexemes: TokenError must point at the text it quotes
            cut = rng.choice(["'abc", '"abc', "/* never closed", "`abc", "'it''s", "$$abc", "'multi\nline"])
            variants.append(respace(rng, s, uni=False) + rng.choice([" ", "\n", " AND x = "]) + cut)
        if rng.random() < 0.3:
            # quoted identifiers spanning lines / multi-byte names, in the dialect-independent double-quote form
            variants.append(respace(rng, s.replace(" AS p", ' AS "p\n' + rng.choice(UNI) + '"', 1)))
        for text in variants:
            for d in rng.sample(dialects, 8):
                case = {"sql": text, "dialect": d or "base"}
                if "\n" in text or "\r" in text or any(ord(c) > 127 for c in text):
                    ctx.nt([text, d])
                toks = check_tokens(ctx, text, d, Ds[d], gap_res[d], case)
                if toks is not None:
                    check_parse(ctx, text, d, case)
                    nreuse += 1
                    if nreuse % 3 == 0:
                        if d not in TK:
                            TK[d] = Ds[d].tokenizer()
                        check_tokens(ctx, text, d, Ds[d], gap_res[d], {**case, "reused_tokenizer": True}, reused=TK[d], k=nreuse // 3)
        if i % 301 == 0:
            ctx.sample({"text": variants[0]})
    if ctx.shard == 0:
        run_probes(ctx, gap_res)


def conclude(agg):
    c = agg["counters"]
    out = []
    need = 10000 if agg["tier"] == "quick" else 100000
    if c["token_streams"] < need:
        out.append(f"only {c['token_streams']} token streams checked (minimum {need})")
    if c["error_positions_checked"] < 1000:
        out.append(f"only {c['error_positions_checked']} ParseError positions checked")
    if c["node_positions_checked"] < 5000:
        out.append(f"only {c['node_positions_checked']} node positions checked")
    return out


def replay(rec):
    from sqlglot.dialects.dialect import Dialect
    from ..runner import ReplayCtx

    ctx = ReplayCtx()
    case = rec["case"]
    d = "" if case.get("dialect") in (None, "base") else case["dialect"]
    D = Dialect.get_or_raise(d)
    toks = check_tokens(ctx, case["sql"], d, D, comment_regex(D), case)
    if case.get("reused_tokenizer"):
        tk = D.tokenizer()
        for k in range(len(_PRIMERS)):
            check_tokens(ctx, case["sql"], d, D, comment_regex(D), case, reused=tk, k=k)
    if toks is not None:
        check_parse(ctx, case["sql"], d, case)
    return ctx.report()

"""C09 - non-mutating APIs leave their arguments untouched and copies are independent."""
from __future__ import annotations

from ..gen import stmts, sqlgen
from ..oracle import canon

LEVEL_TEXT = ("Purity monitoring: a deep fingerprint (node identities, parent links, scalar args, comments, public types, "
              "meta) and the SQL text of each argument tree are taken before and after every call documented not to mutate "
              "(Expression.sql in every dialect, transform/builders with copy=True, optimize, qualify/annotate on a copy, "
              "diff, lineage, expand, replace_tables, replace_placeholders), applied in random order to the same tree "
              "object, including after calls that raised; copies must share no node, comments list or meta dict with the "
              "original and edits of one must not show in the other.")
LEVEL_TEXT += (" Every dialect's harvested statements are generated in their own and two other dialects, pretty, transformed and dumped with the argument's deep fingerprint compared before and after.")
LEVEL_NOTE = "the fingerprint is own code over public attributes plus object identities; trees come from the real parsers"
TECHNIQUE = "runtime monitoring: before/after deep-fingerprint oracle around non-mutating API calls"
RULE = ("core-grammar statements (with comments) parsed in sampled dialects x API list in random order; non-trivial = the "
        "API's own output differs from the input SQL; distinct = distinct (sql, dialect, API)")
ASSUMPTIONS = ["lazily allocated meta ({} vs None) is not an observable difference"]
SPEC = {
    "quick": {"shards": 16, "time_cap": 400, "statements": 1400},
    "thorough": {"shards": 16, "time_cap": 1500, "statements": 10000},
}


SIDE = []   # (api, what) reported by API wrappers that also watch a second argument


def apis(rng, tree, dialects, schema, d):
    """yield (name, callable returning something comparable to str or None)"""
    import sqlglot
    from sqlglot import exp
    from sqlglot.optimizer import optimize
    from sqlglot.optimizer.qualify import qualify
    from sqlglot.optimizer.annotate_types import annotate_types
    from sqlglot.optimizer.normalize_identifiers import normalize_identifiers
    from sqlglot.optimizer.simplify import simplify
    from sqlglot.lineage import lineage
    from sqlglot.diff import diff

    out = []
    for dd in dialects:
        out.append((f"sql:{dd or 'base'}", lambda dd=dd: tree.sql(dialect=dd)))
    out.append(("sql:pretty", lambda: tree.sql(dialect=d, pretty=True, identify=True)))
    out.append(("transform(copy=True)", lambda: tree.transform(lambda n: exp.Literal.number(1) if isinstance(n, exp.Literal) else n).sql()))
    out.append(("copy", lambda: tree.copy().sql()))
    out.append(("optimize", lambda: optimize(tree, schema=schema, dialect=d).sql(dialect=d)))
    out.append(("qualify(copy)", lambda: qualify(tree.copy(), schema=schema, dialect=d).sql(dialect=d)))
    out.append(("annotate_types(copy)", lambda: annotate_types(tree.copy(), schema=schema, dialect=d).sql(dialect=d)))
    out.append(("simplify(copy)", lambda: simplify(tree.copy(), dialect=d).sql(dialect=d)))
    out.append(("diff(tree, tree)", lambda: str(len(diff(tree, tree)))))
    out.append(("diff(tree, other)", lambda: str(len(diff(tree, sqlglot.parse_one("SELECT a, b + 1 AS c FROM t WHERE x > 1")))))),
    out.append(("replace_tables", lambda: exp.replace_tables(tree, {"t1": "cat.db.t9"}, dialect=d).sql()))
    out.append(("replace_placeholders", lambda: exp.replace_placeholders(tree, 1, x=2).sql()))
    def _expand():
        # the `sources` trees are arguments too: they must come back untouched (incl. the parent link of their roots)
        srcs = {"t1": sqlglot.parse_one("SELECT 1 AS k, 2 AS a1"), "t2": sqlglot.parse_one("SELECT 1 AS k, 2 AS a2 FROM t1")}
        before = {k: canon.fingerprint(v) for k, v in srcs.items()}
        res = exp.expand(tree, srcs, dialect=d).sql()
        for k, v in srcs.items():
            if canon.fingerprint(v) != before[k]:
                SIDE.append(("expand:sources", _first_diff(before[k], canon.fingerprint(v))))
        return res

    out.append(("expand", _expand))

    def _lineage_sources():
        srcs = {"t1": "SELECT 1 AS k, 2 AS a1"}
        parsed = {k: sqlglot.parse_one(v) for k, v in srcs.items()}
        before = {k: canon.fingerprint(v) for k, v in parsed.items()}
        r = lineage(tree.named_selects[0], tree, schema=schema, sources=parsed, dialect=d).name if isinstance(tree, exp.Query) and tree.named_selects else None
        for k, v in parsed.items():
            if canon.fingerprint(v) != before[k]:
                SIDE.append(("lineage:sources", _first_diff(before[k], canon.fingerprint(v))))
        return r

    out.append(("lineage(sources=)", _lineage_sources))
    out.append(("find_all/walk", lambda: str(sum(1 for _ in tree.find_all(exp.Column)))))
    out.append(("hash/eq", lambda: str(tree == tree.copy())))
    out.append(("dump", lambda: str(len(tree.dump()))))
    if isinstance(tree, exp.Query):
        out.append(("lineage", lambda: lineage(tree.named_selects[0], tree, schema=schema, dialect=d).name if tree.named_selects else None))
        out.append(("builder:where", lambda: tree.where("zz = 1").sql() if hasattr(tree, "where") else None))
        out.append(("builder:select", lambda: tree.select("zz").sql()))
        out.append(("builder:limit", lambda: tree.limit(3).sql()))
        out.append(("builder:order_by", lambda: tree.order_by("zz").sql()))
        out.append(("builder:subquery", lambda: tree.subquery("sq").sql()))
        out.append(("builder:union", lambda: tree.union("SELECT 1").sql()))
        out.append(("builder:with_", lambda: tree.with_("cc", as_="SELECT 1 AS x").sql()))
        if isinstance(tree, exp.Select):
            out.append(("builder:join", lambda: tree.join("uu", on="uu.k = 1").sql()))
            out.append(("builder:group_by", lambda: tree.group_by("zz").sql()))
            out.append(("builder:distinct", lambda: tree.distinct().sql()))
            out.append(("builder:from_", lambda: tree.from_("uu2").sql()))
    if isinstance(tree, exp.Condition):
        out.append(("builder:and_", lambda: tree.and_("zz").sql()))
        out.append(("builder:not_", lambda: tree.not_().sql()))
        out.append(("builder:as_", lambda: tree.as_("al").sql()))
    rng.shuffle(out)
    return out


def check_copy_independence(ctx, tree, case):
    from sqlglot import exp

    c = tree.copy()
    ids = {id(n) for n in tree.walk()}
    shared = [type(n).__name__ for n in c.walk() if id(n) in ids]
    if shared:
        ctx.violation(f"copy-shares-node:{shared[0]}", {"sql": case["sql"]}, case)
        return
    oc = {id(n.comments) for n in tree.walk() if n.comments is not None}
    om = {id(n._meta) for n in tree.walk() if n._meta is not None}
    for n in c.walk():
        if n.comments is not None and id(n.comments) in oc:
            ctx.violation("copy-shares-comments-list", {"sql": case["sql"], "node": type(n).__name__}, case)
            return
        if n._meta is not None and id(n._meta) in om:
            ctx.violation("copy-shares-meta-dict", {"sql": case["sql"], "node": type(n).__name__}, case)
            return
    ctx.count("copy_disjointness_checks")
    # cross-mutation independence: edit the copy, the original must not move
    before = canon.fingerprint(tree)

    def _txt():
        try:
            return tree.sql()
        except Exception as e:   # a tree the base dialect cannot write (C05's subject): the fingerprint still decides
            return "raises " + type(e).__name__

    txt = _txt()
    for n in list(c.walk()):
        if isinstance(n, exp.Literal):
            n.set("this", "99")
        if isinstance(n, exp.Identifier):
            n.set("this", n.name + "_z")
        if n.comments:
            n.comments.append("edited")
        n.meta["edited"] = True
    for n in list(c.find_all(exp.Column))[:1]:
        n.replace(exp.column("replaced"))
    if canon.fingerprint(tree) != before or _txt() != txt:
        ctx.violation("edit-of-copy-changes-original", {"sql": case["sql"]}, case)
    ctx.count("cross_mutation_checks")


def run_case(ctx, i):
    import sqlglot
    from sqlglot.errors import SqlglotError
    from ..common import dialect_names
    from .c07 import add_comments

    rng = ctx.case_rng(i)
    all_d = dialect_names()
    tables = sqlgen.gen_schema(rng)
    s, kind = stmts.gen_statement(rng, tables, wide_types=True)
    s, _ = add_comments(rng, s, rng.randint(0, 3))
    schema = sqlgen.sqlglot_schema(tables)
    for d in rng.sample(all_d, 2):
        try:
            tree = sqlglot.parse_one(s, read=d)
        except SqlglotError:
            continue
        except Exception:
            continue
        case = {"sql": s, "dialect": d or "base"}
        if rng.random() < 0.3:
            # typed / meta-carrying variant
            try:
                from sqlglot.optimizer.annotate_types import annotate_types

                tree = annotate_types(tree, dialect=d)
            except Exception:
                pass
        src_sql = None
        try:
            src_sql = tree.sql(dialect=d)
        except Exception:
            pass
        fp0 = canon.fingerprint(tree)
        for name, fn in apis(rng, tree, all_d, schema, d):
            before_txt = src_sql
            raised = None
            try:
                res = fn()
            except SqlglotError as e:
                raised = type(e).__name__
                res = None
            except RecursionError:
                raised = "RecursionError"
                res = None
            except Exception as e:
                raised = type(e).__name__   # internal errors are C05's subject; the argument must still be intact
                res = None
            ctx.count("evaluations")
            ctx.count("api_calls")
            if raised:
                ctx.count("api_raised")
            while SIDE:
                api2, what2 = SIDE.pop()
                ctx.violation(f"argument-mutated:{api2}:{what2}", {"sql": s, "dialect": d or "base", "api": api2, "diff": what2}, case)
            fp1 = canon.fingerprint(tree)
            changed = fp1 != fp0
            if not changed and src_sql is not None:
                try:
                    changed = tree.sql(dialect=d) != src_sql
                except Exception:
                    changed = True
            if changed:
                what = _first_diff(fp0, fp1)
                api = name.split(":")[0] if name.startswith("sql:") else name
                ctx.violation(f"argument-mutated:{api}:{what}", {"sql": s, "dialect": d or "base", "api": name, "raised": raised, "diff": what}, case)
                fp0 = fp1
                try:
                    src_sql = tree.sql(dialect=d)
                except Exception:
                    src_sql = None
            if res is not None and res != src_sql:
                ctx.nt([s, d, name])
        check_copy_independence(ctx, tree, case)
    if i % 211 == 0:
        ctx.sample({"sql": s, "apis": "sql in all dialects, transform, builders, optimize, qualify, annotate_types, diff, lineage, expand, replace_tables, replace_placeholders (random order)"})


def _first_diff(a, b):
    if len(a) != len(b):
        return "node-count"
    for x, y in zip(a, b):
        if x != y:
            names = ["id", "class", "parent", "arg_key", "index", "args", "comments", "type", "meta"]
            for k, (p, q) in enumerate(zip(x, y)):
                if p != q:
                    return f"{names[k]}@{x[1]}"
    return "?"


def harvested_trees(ctx):
    """dialect-specific trees (harvested vocabulary, gen/harvest.py): generating in the tree's own dialect, in two other
    dialects and pretty, copying and transforming must leave the tree untouched - this is where the dialect generators'
    own rewrites (pop / replace / set inside *_sql methods) run"""
    import sqlglot
    from sqlglot import exp
    from ..common import dialect_names, guarded
    from ..gen.harvest import harvested

    names = [d for d in dialect_names() if d]
    stride = 4 if ctx.tier == "quick" else 1
    k = 0
    for di, d in enumerate(names):
        texts, found = harvested(d)
        for ti, s in enumerate(texts):
            k += 1
            if k % ctx.nshards != ctx.shard or (ti + di) % stride:
                continue
            if ctx.expired():
                return
            st, tree = guarded(lambda: sqlglot.parse_one(s, read=d), len(s) // 3 + 10)
            if st != "ok" or tree is None:
                continue
            ctx.count("harvested_trees")
            case = {"sql": s, "dialect": d}
            fp0 = canon.fingerprint(tree)
            targets = [d, names[(di * 5 + ti) % len(names)], names[(di * 11 + ti * 7 + 3) % len(names)]]
            calls = [(f"sql:{t}", (lambda t=t: tree.sql(dialect=t))) for t in targets]
            calls.append(("sql:pretty", lambda: tree.sql(dialect=d, pretty=True, identify=True)))
            calls.append(("transform(copy=True)", lambda: tree.transform(lambda n: n)))
            calls.append(("dump", lambda: tree.dump()))
            for name, fn in calls:
                st, _ = guarded(fn, len(s) // 3 + 30)
                ctx.count("evaluations")
                ctx.count("api_calls")
                if st == "budget":
                    continue
                fp1 = canon.fingerprint(tree)
                if fp1 != fp0:
                    what = _first_diff(fp0, fp1)
                    api = name.split(":")[0] if name.startswith("sql:") else name
                    ctx.violation(f"argument-mutated:{api}:{what}", {"sql": s, "dialect": d, "api": name, "diff": what}, case)
                    fp0 = fp1
                else:
                    ctx.nt([s, d, name])
            if ti % 5 == 0:
                check_copy_independence(ctx, tree, case)


def worker(ctx):
    for i in ctx.mine(SPEC[ctx.tier]["statements"]):
        if ctx.expired():
            break
        run_case(ctx, i)
    harvested_trees(ctx)


def conclude(agg):
    c = agg["counters"]
    need = 20000 if agg["tier"] == "quick" else 200000
    out = []
    if c["api_calls"] < need:
        out.append(f"only {c['api_calls']} API calls were observed (minimum {need})")
    if c["cross_mutation_checks"] < 300:
        out.append("fewer than 300 copy-independence checks")
    return out

"""C08 - syntax trees stay structurally consistent under any sequence of edits."""
from __future__ import annotations

from ..gen import stmts, sqlgen
from ..oracle import canon

LEVEL_TEXT = ("Invariant monitoring at the exit of every public tree operation: parent/arg_key/index links match storage, "
              "no node object is stored twice, every cached _hash equals the hash of a cache-free clone built by the harness, "
              "and == agrees with an independent canonical form. Workload: all operation sequences up to a length bound over "
              "small seed trees (exhaustive), seeded random sequences on generated trees, and the outputs of the parsers "
              "(all dialects) and of every optimizer rule.")
LEVEL_TEXT += (" Parser outputs of every dialect's harvested statements are audited as parsed, copied and identity-transformed.")
LEVEL_NOTE = ("values attached by the workload are always fresh or copied nodes (attaching an already attached node without "
              "pop() is API misuse the library does not promise to survive); hash() itself is trusted on a cache-free clone")
TECHNIQUE = "runtime monitoring: structural invariant walker + hash-cache oracle after each operation (bounded-exhaustive + random histories)"
RULE = ("operation alphabet {set scalar/list element (overwrite, insert, delete, splice), append, replace, pop, transform "
        "(identity/replacing/dropping, in place and copying), copy, hash(), builder methods, replace_children, replace_tree} "
        "x target node x position; non-trivial = sequence in which a hash cache was populated before a later mutation; "
        "distinct = distinct (seed tree, operation sequence)")
ASSUMPTIONS = ["operations that raise end the sequence; the tree is not inspected after a raising operation"]
SPEC = {
    "quick": {"shards": 16, "time_cap": 400, "exh_len": 2, "random": 20000, "parse_statements": 1500, "opt_queries": 1500},
    "thorough": {"shards": 16, "time_cap": 1800, "exh_len": 3, "random": 100000, "parse_statements": 8000, "opt_queries": 8000},
}

SEEDS = ["a + b", "f(a, b, c)", "SELECT a, b FROM t WHERE x = 1", "a AND (b OR c)", "CASE WHEN a THEN 1 ELSE 2 END",
         "x IN (1, 2, 3)", "CAST(a AS INT)", "SELECT a FROM t ORDER BY a, b LIMIT 3"]
FRESH = ["z", "1", "g(z)", "z + 1", "NOT z"]


def fresh(i=0):
    import sqlglot

    return sqlglot.parse_one(FRESH[i % len(FRESH)])


def nodes_of(t):
    return list(t.walk())


def enumerate_ops(t, compact=True):
    """descriptors of every applicable operation on the current tree (bounded positions: first/middle/last)"""
    from sqlglot import exp

    ops = [("hash", 0), ("copy",), ("transform-identity-copy",), ("transform-identity-inplace",),
           ("transform-replace-literals",), ("transform-drop-first-literal",), ("eq-copy",)]
    ns = nodes_of(t)
    for ni, n in enumerate(ns):
        if ni and ni % 2 == 0:
            ops.append(("hash", ni))
        for k, v in n.args.items():
            if canon._is_expr(v):
                ops.append(("set-scalar", ni, k, 0))
                ops.append(("set-none", ni, k))
            elif type(v) is list and v and all(canon._is_expr(x) for x in v):
                poss = sorted({0, len(v) // 2, len(v) - 1})
                for p in poss:
                    ops.append(("set-idx-overwrite", ni, k, p))
                    ops.append(("set-idx-insert", ni, k, p))
                    ops.append(("set-idx-delete", ni, k, p))
                ops.append(("set-idx-splice", ni, k, poss[0]))
                ops.append(("append", ni, k))
                ops.append(("set-list", ni, k))
        if getattr(n, "_hash_raw_args", False) and "this" in n.args and not canon._is_expr(n.args["this"]):
            ops.append(("leaf-reset", ni))   # clear and restore a leaf's value: the tree must compare as before
        if n.parent is not None:
            ops.append(("replace", ni, 1))
            ops.append(("replace-none", ni))
            ops.append(("pop", ni))
    if isinstance(t, exp.Select):
        for b in ("select", "where", "order_by", "limit", "join", "group_by", "with_", "from_"):
            ops.append(("builder", b, False))
        ops.append(("builder", "where", True))
    elif isinstance(t, exp.Condition):
        for b in ("and_", "or_", "not_", "as_"):
            ops.append(("builder", b, False))
    ops.append(("replace_children",))
    return ops


def apply_op(t, op):
    """perform op on tree t, return (new root, mutated?)"""
    import sqlglot
    from sqlglot import exp

    kind = op[0]
    ns = nodes_of(t)
    if kind == "hash":
        hash(ns[op[1]])
        return t, False
    if kind == "copy":
        return t.copy(), False
    if kind == "eq-copy":
        c = t.copy()
        if not (c == t):
            raise AssertionError("copy != original")
        return t, False
    if kind == "transform-identity-copy":
        return t.transform(lambda x: x, copy=True), False
    if kind == "transform-identity-inplace":
        return t.transform(lambda x: x, copy=False), True
    if kind == "transform-replace-literals":
        return t.transform(lambda x: exp.Literal.number(7) if isinstance(x, exp.Literal) else x, copy=False), True
    if kind == "transform-drop-first-literal":
        state = {"done": False}

        def f(x):
            if isinstance(x, exp.Literal) and not state["done"] and x.parent is not None and x.index is not None:
                state["done"] = True
                return None
            return x
        return t.transform(f, copy=False), True
    if kind == "replace_children":
        exp.replace_children(t, lambda c: fresh(2) if isinstance(c, exp.Literal) else c)
        return t, True
    if kind == "builder":
        name, cp = op[1], op[2]
        args = {"select": ("zz",), "where": ("zz > 1",), "order_by": ("zz",), "limit": (5,), "join": ("u",),
                "group_by": ("zz",), "with_": ("cte",), "from_": ("u2",), "and_": ("zz",), "or_": ("zz",), "not_": (), "as_": ("al",)}[name]
        kw = {"copy": cp}
        if name == "join":
            kw["on"] = "t.k = u.k"
        if name == "with_":
            kw["as_"] = "SELECT 1 AS x"
        r = getattr(t, name)(*args, **kw)
        return (r if r is not None else t), not cp
    n = ns[op[1]]
    if kind == "set-scalar":
        n.set(op[2], fresh(op[3]))
    elif kind == "set-none":
        n.set(op[2], None)
    elif kind == "set-idx-overwrite":
        n.set(op[2], fresh(1), index=op[3])
    elif kind == "set-idx-insert":
        n.set(op[2], fresh(2), index=op[3], overwrite=False)
    elif kind == "set-idx-delete":
        n.set(op[2], None, index=op[3])
    elif kind == "set-idx-splice":
        n.set(op[2], [fresh(0), fresh(1)], index=op[3])
    elif kind == "set-list":
        n.set(op[2], [fresh(0), fresh(3)])
    elif kind == "leaf-reset":
        v = n.args["this"]
        before = canon.canon(t)
        n.set("this", None)
        n.set("this", v)
        if canon.canon(t) != before:
            raise AssertionError("harness: leaf-reset changed the canonical form")
    elif kind == "append":
        n.append(op[2], fresh(3))
    elif kind == "replace":
        n.replace(fresh(op[2]))
    elif kind == "replace-none":
        n.replace(None)
    elif kind == "pop":
        n.pop()
    else:
        raise AssertionError(kind)
    return t, True


def inspect(t):
    """-> list of problems of the tree reachable from t"""
    probs = canon.check_links(t)
    if t.parent is not None and False:
        probs.append(("root-has-parent",))
    probs += canon.check_hashes(t)
    return probs


def run_sequence(ctx, seed_sql, ops, record=True):
    """re-executes a sequence from the seed; returns (tree, problem | None)"""
    import sqlglot

    t = sqlglot.parse_one(seed_sql)
    cache_before_mutation = False
    hashed = False
    for step, op in enumerate(ops):
        try:
            t, mutated = apply_op(t, op)
        except AssertionError as e:
            return t, ("eq", step, str(e))
        except Exception:
            ctx.count("op_raised")
            return t, None
        if op[0] == "hash" or op[0] == "eq-copy":
            hashed = True
        if mutated and hashed:
            cache_before_mutation = True
        ctx.count("invariant_walks")
        probs = inspect(t)
        if probs:
            return t, ("invariant", step, probs[0])
    return t, ("nontrivial" if cache_before_mutation else None)


def final_equality(ctx, t, seed_sql, ops):
    import sqlglot

    try:
        c = t.copy()
        other = sqlglot.parse_one(seed_sql)
        pairs = [("copy", c), ("seed", other), ("same-tree-args-inserted-in-reverse-order", canon.fresh_clone(t, reverse=True))]
        try:
            pairs.append(("reparsed", sqlglot.parse_one(t.sql())))
        except Exception:
            pass
        for name, o in pairs:
            ctx.count("equality_comparisons")
            if (t == o) != canon.canon_equal(t, o):
                return (name, t == o, canon.canon_equal(t, o))
    except Exception:
        ctx.count("final_equality_raised")
    return None


def op_sig(op):
    return op[0] if op[0] != "builder" else f"builder.{op[1]}"


def report(ctx, seed_sql, ops, res):
    kind, step, what = res
    if kind == "invariant":
        sig = f"invariant:{what[0]}:after:{op_sig(ops[step])}"
    else:
        sig = f"eq-vs-canon:after:{op_sig(ops[step])}"
    ctx.violation(sig, {"seed": seed_sql, "ops": [list(o) for o in ops[: step + 1]], "problem": what},
                  {"seed": seed_sql, "ops": [list(o) for o in ops]})


def exhaustive(ctx, L):
    import sqlglot

    seq_id = 0

    def rec(seed_sql, prefix):
        nonlocal seq_id
        # state after prefix
        t = sqlglot.parse_one(seed_sql)
        try:
            for op in prefix:
                t, _ = apply_op(t, op)
        except Exception:
            return
        for op in enumerate_ops(t):
            ops = prefix + [op]
            if len(ops) == 1 or True:
                seq_id += 1
                mine = seq_id % ctx.nshards == ctx.shard
            if len(ops) < L:
                rec(seed_sql, ops)
            if not mine:
                continue
            ctx.count("evaluations")
            ctx.count("exhaustive_sequences")
            tr, res = run_sequence(ctx, seed_sql, ops)
            if isinstance(res, tuple):
                report(ctx, seed_sql, ops, res)
                continue
            if res == "nontrivial":
                ctx.nt([seed_sql, ops])
            bad = final_equality(ctx, tr, seed_sql, ops)
            if bad:
                ctx.violation(f"eq-vs-canon:{bad[0]}:after:{op_sig(ops[-1])}", {"seed": seed_sql, "ops": [list(o) for o in ops], "lib_eq": bad[1], "canon_eq": bad[2]},
                              {"seed": seed_sql, "ops": [list(o) for o in ops]})

    for seed_sql in SEEDS:
        rec(seed_sql, [])


def random_sequences(ctx, n):
    import sqlglot
    from sqlglot.errors import SqlglotError

    for i in ctx.mine(n):
        if ctx.expired():
            break
        rng = ctx.case_rng(i)
        if rng.random() < 0.5:
            seed_sql = rng.choice(SEEDS)
        else:
            seed_sql, _ = stmts.gen_statement(rng)
        try:
            t = sqlglot.parse_one(seed_sql)
        except SqlglotError:
            continue
        ops = []
        res = None
        hashed = False
        nontrivial = False
        for step in range(rng.randint(2, 30 if ctx.tier == "thorough" else 12)):
            cands = enumerate_ops(t)
            op = rng.choice(cands)
            if rng.random() < 0.25:
                op = ("hash", rng.randrange(len(nodes_of(t))))
            ops.append(op)
            try:
                t, mutated = apply_op(t, op)
            except AssertionError as e:
                res = ("eq", step, str(e))
                break
            except Exception:
                ctx.count("op_raised")
                break
            hashed = hashed or op[0] in ("hash", "eq-copy")
            nontrivial = nontrivial or (mutated and hashed)
            ctx.count("invariant_walks")
            probs = inspect(t)
            if probs:
                res = ("invariant", step, probs[0])
                break
        ctx.count("evaluations")
        ctx.count("random_sequences")
        if res:
            report(ctx, seed_sql, ops, res)
            continue
        if nontrivial:
            ctx.nt([seed_sql, ops])
        bad = final_equality(ctx, t, seed_sql, ops)
        if bad:
            ctx.violation(f"eq-vs-canon:{bad[0]}:after:{op_sig(ops[-1]) if ops else '-'}", {"seed": seed_sql, "ops": [list(o) for o in ops], "lib_eq": bad[1], "canon_eq": bad[2]},
                          {"seed": seed_sql, "ops": [list(o) for o in ops]})
        if i % 1501 == 0:
            ctx.sample({"seed": seed_sql, "ops": [list(o) for o in ops[:8]]})


# regression probes of repaired defects (see KNOWN_FINDINGS.txt `fixed:` lines): they report again if the defect returns
PARSE_PROBES = [
    ("probe/parse:stale-parent:SqlSecurityProperty", "", "CREATE ALGORITHM=UNDEFINED DEFINER=foo@% VIEW a SQL SECURITY DEFINER AS (SELECT a FROM b)"),
    ("probe/parse:shared-node:hive-struct", "hive", "SELECT STRUCT(x, x AS y)"),
]
OPT_PROBES = [
    ("probe/unnest_subqueries:correlated-any:operand-stored-twice",
     "SELECT x1.b1 AS p FROM t1 AS x1 WHERE x1.c1 > ANY (SELECT x2.b2 FROM t2 AS x2 WHERE x2.k = x1.b1)"),
]


def parser_outputs(ctx, n):
    import sqlglot
    from sqlglot.errors import SqlglotError
    from ..common import dialect_names, VERIF_DIR
    import os

    dialects = dialect_names()
    corpus = [l.rstrip("\n") for l in open(os.path.join(VERIF_DIR, "vf", "corpus", "identity.sql"), encoding="utf-8")]
    for i in ctx.mine(n + len(corpus)):
        if ctx.expired():
            break
        rng = ctx.case_rng(1_000_000 + i)
        if i < len(corpus):
            s, kind = corpus[i], "corpus"
        else:
            s, kind = stmts.gen_statement(rng)
        for d in dialects:
            try:
                t = sqlglot.parse_one(s, read=d)
            except SqlglotError:
                continue
            except Exception:
                continue
            hash(t)
            ctx.count("evaluations")
            ctx.count("parser_outputs_checked")
            probs = inspect(t)
            if probs:
                p = probs[0]
                ctx.violation(f"parse-output:{p[0]}:{d or 'base'}:{p[1]}", {"sql": s, "dialect": d or "base", "problem": p}, {"sql": s, "dialect": d})
    # literal zoo: every literal kind (with its options, e.g. UESCAPE) in every dialect that reads it
    n = 0
    for lit in stmts.EXOTIC_LITERALS:
        for d in dialects:
            n += 1
            if n % ctx.nshards != ctx.shard:
                continue
            s = f"SELECT {lit} AS x, f({lit}) FROM t WHERE y = {lit}"
            try:
                t = sqlglot.parse_one(s, read=d)
                hash(t)
            except Exception:
                continue
            ctx.count("evaluations")
            ctx.count("parser_outputs_checked")
            ctx.count("literal_zoo_outputs_checked")
            probs = inspect(t)
            if probs:
                p = probs[0]
                ctx.violation(f"parse-output:{p[0]}:{d or 'base'}:{p[1]}", {"sql": s, "dialect": d or "base", "problem": p}, {"sql": s, "dialect": d})
    if ctx.shard == 0:
        for key, d, s in PARSE_PROBES:
            ctx.count("probes")
            try:
                t = sqlglot.parse_one(s, read=d)
                hash(t)
                probs = inspect(t)
                if probs:
                    ctx.violation(key, {"sql": s, "problem": probs[0]})
            except Exception as e:
                ctx.count("probe_did_not_parse")


def harvested_parser_outputs(ctx):
    """parser outputs for dialect-specific statements (harvested vocabulary, gen/harvest.py): links and hashes of the tree
    as parsed, of its copy, and after an identity transform"""
    import sqlglot
    from ..common import dialect_names, guarded
    from ..gen.harvest import harvested

    stride = 3 if ctx.tier == "quick" else 1
    k = 0
    for di, d in enumerate(x for x in dialect_names() if x):
        texts, found = harvested(d)
        for ti, s in enumerate(texts):
            k += 1
            if k % ctx.nshards != ctx.shard or (ti + di) % stride:
                continue
            if ctx.expired():
                return
            st, trees = guarded(lambda: sqlglot.parse(s, read=d), len(s) // 3 + 10)
            if st != "ok":
                continue
            for t in trees:
                if t is None:
                    continue
                try:
                    hash(t)
                except Exception as e:
                    ctx.violation(f"parse-output:hash-raises:{d}:{type(e).__name__}", {"sql": s, "dialect": d, "problem": repr(e)[:200]}, {"sql": s, "dialect": d})
                    continue
                ctx.count("evaluations")
                ctx.count("parser_outputs_checked")
                ctx.count("harvested_parser_outputs_checked")
                ctx.nt([d, s])
                for stage, tree in (("parse-output", t), ("copy-of-parse-output", t.copy()), ("transform-of-parse-output", t.transform(lambda n: n))):
                    if stage != "parse-output":
                        hash(tree)
                    probs = inspect(tree)
                    ctx.count("invariant_walks")
                    if probs:
                        p = probs[0]
                        ctx.violation(f"{stage}:{p[0]}:{d}:{p[1]}", {"sql": s, "dialect": d, "problem": p}, {"sql": s, "dialect": d})
                        break


def optimizer_outputs(ctx, n):
    from sqlglot import exp
    from sqlglot.errors import SqlglotError
    from sqlglot.optimizer import optimizer as O
    from sqlglot.schema import ensure_schema
    from .c03 import rule_kwargs, FEATS

    for i in ctx.mine(n):
        if ctx.expired():
            break
        rng = ctx.case_rng(2_000_000 + i)
        tables = sqlgen.gen_schema(rng)
        # correlated ANY is a listed finding (OPT_PROBES); everything else the C03 workload excludes is welcome here
        g = sqlgen.Gen(rng, tables, dict(FEATS, any_sub=False, subq_under_or=True, const_cmp=True, cross_join_derived=True,
                                         outer_derived=True, derived_order_nolimit=True, group_derived_expr=True), prof="duckdb")
        text = g.query().render("duckdb")
        schema = ensure_schema(sqlgen.sqlglot_schema(tables), dialect="duckdb")
        try:
            tree = exp.maybe_parse(text, dialect="duckdb")
        except SqlglotError:
            continue
        for rule in O.RULES:
            hash(tree)
            try:
                tree = rule(tree, **rule_kwargs(rule, schema, "duckdb"))
            except SqlglotError:
                break
            except Exception:
                ctx.count("rule_internal_error(C05/C03)")
                break
            ctx.count("evaluations")
            ctx.count("optimizer_outputs_checked")
            ctx.count("rule_output:" + rule.__name__)
            probs = inspect(tree)
            if probs:
                p = probs[0]
                ctx.violation(f"rule-output:{rule.__name__}:{p[0]}:{p[1]}", {"sql": text, "problem": p}, {"sql": text, "rule": rule.__name__})
                break


def simplify_outputs(ctx, n):
    """simplify / normalize with every option combination on boolean expressions (the rules rewrite in place and
    repair pointers by hand): the result must satisfy the same structural invariants"""
    import sqlglot
    from sqlglot.errors import SqlglotError
    from sqlglot.optimizer.simplify import simplify
    from sqlglot.optimizer.normalize import normalize
    from .c06 import gb, targeted

    for i in ctx.mine(n):
        if ctx.expired():
            break
        rng = ctx.case_rng(3_000_000 + i)
        text = targeted(rng) if rng.random() < 0.4 else gb(rng, rng.randint(1, 4))
        if rng.random() < 0.4:
            c, d, k = rng.choice(["a", "b"]), rng.choice(["a", "b", "p"]), rng.choice([1, 2, 5])
            text = f"({text}) AND {c} = {d} AND {d} = {k}" if rng.random() < 0.5 else f"{c} = {k} AND ({text}) AND {d} > {c}"
        opts = {"constant_propagation": rng.random() < 0.5, "coalesce_simplification": rng.random() < 0.5}
        for kind in ("simplify", "normalize"):
            try:
                tree = sqlglot.parse_one(text if rng.random() < 0.6 else f"SELECT x FROM t WHERE {text}", read="duckdb")
                hash(tree)
                out = simplify(tree, dialect="duckdb", **opts) if kind == "simplify" else normalize(tree, dnf=rng.random() < 0.5)
            except SqlglotError:
                continue
            except Exception:
                ctx.count("simplify_internal_error(C05/C06)")
                continue
            ctx.count("evaluations")
            ctx.count("simplify_outputs_checked")
            probs = inspect(out)
            if probs:
                p = probs[0]
                on = "+".join(k for k, v in opts.items() if v) or "default"
                ctx.violation(f"rule-output:{kind}:{p[0]}:{on if kind == 'simplify' else '-'}", {"expr": text, "options": opts, "problem": p},
                              {"expr": text, "options": opts})


def optimizer_probes(ctx):
    from sqlglot import exp
    from sqlglot.optimizer import optimizer as O
    from sqlglot.schema import ensure_schema
    from .c03 import rule_kwargs

    schema = ensure_schema({"t1": {"k": "INT", "b1": "INT", "c1": "INT"}, "t2": {"k": "INT", "b2": "INT"}}, dialect="duckdb")
    for key, text in OPT_PROBES:
        ctx.count("probes")
        tree = exp.maybe_parse(text, dialect="duckdb")
        try:
            for rule in O.RULES:
                hash(tree)
                tree = rule(tree, **rule_kwargs(rule, schema, "duckdb"))
                probs = inspect(tree)
                if probs:
                    ctx.violation(key, {"sql": text, "rule": rule.__name__, "problem": probs[0]})
                    break
        except Exception as e:
            ctx.count("probe_raised")


def worker(ctx):
    spec = SPEC[ctx.tier]
    if ctx.shard == 0:
        optimizer_probes(ctx)
    exhaustive(ctx, spec["exh_len"])
    ctx.extra["exhaustive_len"] = spec["exh_len"]
    random_sequences(ctx, spec["random"])
    parser_outputs(ctx, spec["parse_statements"])
    harvested_parser_outputs(ctx)
    optimizer_outputs(ctx, spec["opt_queries"])
    simplify_outputs(ctx, spec["opt_queries"] * 2)


def conclude(agg):
    c = agg["counters"]
    out = []
    if c["exhaustive_sequences"] + c["random_sequences"] < 5000:
        out.append("fewer than 5000 operation sequences ran")
    if c["parser_outputs_checked"] + c["optimizer_outputs_checked"] < 2000:
        out.append("fewer than 2000 parser/optimizer outputs were checked")
    if c["invariant_walks"] < 10000:
        out.append("fewer than 10000 invariant walks")
    return out


def coverage_extra(agg):
    ex = agg["extras"][0] if agg["extras"] else {}
    return {"exhaustive_part": f"all operation sequences up to length {ex.get('exhaustive_len')} over {len(SEEDS)} seed trees "
                               "with the bounded position alphabet of enumerate_ops()"}

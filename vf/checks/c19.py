"""C19 - concurrent use from many threads gives the single-threaded answers."""
from __future__ import annotations

import json
import os
import subprocess
import sys

from ..common import REPO, VERIF_DIR

LEVEL_TEXT = ("Thread-stress monitoring from cold interpreters: every trial is a fresh process in which N threads (2-16) wait on a "
              "barrier and then tokenize / parse / transpile / build generators / touch the lazy optimizer attributes / optimize "
              "over all dialects, each thread in its own random order so that first uses collide, with the switch interval at "
              "1 microsecond and sys.monitoring LINE callbacks injecting yields inside the lazy-import, dialect-registry and "
              "dispatch-cache code. Every result is compared with a single-threaded baseline process; module executions, "
              "dialect class constructions and the registry are audited for exactly-once; a hang is diagnosed with faulthandler.")
LEVEL_NOTE = ("'all interleavings' is restated as: no divergence over the trials run; the evidence reports how many distinct first-use "
              "orders and overlapping module executions were actually observed, and a run without any overlap is inconclusive")
TECHNIQUE = "runtime monitoring: thread stress with yield injection in fresh processes, sequential-baseline oracle, exactly-once audit"
RULE = ("trials = fresh processes x {cold, warm} x N in {2,4,8,16}; non-trivial = trial in which module executions of different "
        "threads overlapped in time; distinct = distinct first-use order of dialect modules")
ASSUMPTIONS = ["yields are injected only at line boundaries of Python code, where the interpreter may switch threads anyway"]
SPEC = {
    "quick": {"shards": 8, "time_cap": 400, "trials": 32},
    "thorough": {"shards": 16, "time_cap": 1500, "trials": 320},
}
TRIAL = os.path.join(VERIF_DIR, "vf", "checks", "c19_trial.py")


def run_trial(mode, threads, seed, inject=True, timeout=150):
    env = dict(os.environ)
    env["PYTHONDONTWRITEBYTECODE"] = "1"
    env.pop("PYTHONPATH", None)
    a = json.dumps({"repo": REPO, "threads": threads, "seed": seed, "mode": mode, "inject": inject, "hang_after": timeout - 20})
    try:
        p = subprocess.run([sys.executable, "-B", TRIAL, a], capture_output=True, text=True, timeout=timeout, env=env, cwd="/")
    except subprocess.TimeoutExpired as e:
        return {"hang": True, "stderr": (e.stderr or "")[-3000:] if isinstance(e.stderr, str) else ""}
    if p.returncode != 0 or not p.stdout.strip():
        return {"crash": True, "rc": p.returncode, "stderr": p.stderr[-3000:]}
    try:
        return json.loads(p.stdout.strip().splitlines()[-1])
    except ValueError:
        return {"crash": True, "rc": p.returncode, "stderr": p.stdout[-500:] + p.stderr[-1500:]}


def worker(ctx):
    spec = SPEC[ctx.tier]
    base = run_trial("baseline", 1, 0, inject=False)
    if base.get("crash") or base.get("hang"):
        ctx.extra["baseline_failed"] = base.get("stderr", "")[-500:]
        return
    baseline = {k: v[0] for k, v in base["results"].items()}
    ctx.extra["baseline_tasks"] = len(baseline)
    orders = set()
    for i in ctx.mine(spec["trials"]):
        if ctx.expired():
            break
        rng = ctx.case_rng(i)
        mode = "cold" if i % 2 == 0 else "warm"
        nt = [2, 4, 8, 16][(i // 2) % 4]
        r = run_trial(mode, nt, ctx.seed * 100003 + i)
        ctx.count("evaluations")
        ctx.count("trials")
        case = {"mode": mode, "threads": nt, "trial_seed": ctx.seed * 100003 + i}
        if r.get("hang"):
            st = r.get("stderr", "")
            waiting = st.count("acquire") + st.count("_wait_for_tstate_lock") + st.count("lock")
            if "Thread 0x" in st and st.count("File") and all(("acquire" in blk or "wait" in blk or "join" in blk) for blk in st.split("Thread 0x")[1:]):
                ctx.violation(f"deadlock:{mode}", {"threads": nt, "stacks": st[-1500:]}, case)
            else:
                ctx.count("trial_timed_out(inconclusive)")
            continue
        if r.get("crash"):
            ctx.violation(f"trial-process-crashed:{mode}", {"threads": nt, "rc": r.get("rc"), "stderr": r.get("stderr", "")[-800:]}, case)
            continue
        ctx.count("threads_run", nt)
        ctx.count("injected_yields", r["injected_yields"])
        if r["overlapping_module_executions"] > 0:
            ctx.count("trials_with_overlapping_module_executions")
            ctx.nt(r["first_use_order"])
        ctx.count("overlapping_module_executions", r["overlapping_module_executions"])
        orders.add(r["first_use_order"])
        # results vs sequential baseline
        for key, vals in r["results"].items():
            ctx.count("results_compared", len(vals))
            want = baseline.get(key)
            bad = [v for v in vals if v != want]
            if bad:
                api = key.split(":")[0]
                kind = "exception-under-threads:" + bad[0].split(":")[1] if bad[0].startswith("EXC:") else "result-differs"
                ctx.violation(f"{kind}:{api}:{mode}", {"task": key, "threads": nt, "got": bad[:3], "baseline": want}, case)
        missing = set(baseline) - set(r["results"])
        if missing:
            ctx.violation(f"tasks-without-result:{mode}", {"missing": sorted(missing)[:5]}, case)
        for f, n in r["module_exec_counts"].items():
            if n != 1:
                ctx.violation(f"module-executed-{n}-times:{mode}", {"module": f, "threads": nt}, case)
        for name, n in r["new_counts"].items():
            if n != 1:
                ctx.violation(f"dialect-class-constructed-{n}-times:{mode}", {"class": name, "threads": nt}, case)
        if r["registry_problems"]:
            ctx.violation(f"registry-mismatch:{mode}", {"dialects": r["registry_problems"][:5], "threads": nt}, case)
        if i % 7 == 0:
            ctx.sample({"mode": mode, "threads": nt, "overlapping_module_executions": r["overlapping_module_executions"],
                        "importing_threads": r["importing_threads"], "injected_yields": r["injected_yields"], "first_use_order_digest": r["first_use_order"]})
    ctx.extra["orders"] = sorted(orders)


def conclude(agg):
    c = agg["counters"]
    out = []
    if any("baseline_failed" in e for e in agg["extras"]):
        out.append("the sequential baseline process failed")
    need = 16 if agg["tier"] == "quick" else 160
    if c["trials"] - c["trial_timed_out(inconclusive)"] < need:
        out.append(f"only {c['trials'] - c['trial_timed_out(inconclusive)']} trials completed (minimum {need})")
    if c["trials_with_overlapping_module_executions"] < 1:
        out.append("no trial showed module executions of different threads overlapping: the race window was never observed")
    return out


def coverage_extra(agg):
    orders = set()
    for e in agg["extras"]:
        orders.update(e.get("orders", []))
    return {"distinct_first_use_orders": len(orders), "trials": agg["counters"]["trials"],
            "overlapping_module_executions_total": agg["counters"]["overlapping_module_executions"],
            "injected_yields_total": agg["counters"]["injected_yields"]}

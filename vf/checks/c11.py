"""C11 - the Python executor returns what the reference engines return."""
from __future__ import annotations

from ..gen import sqlgen
from ..oracle.engines import Engines, norm_rows

LEVEL_TEXT = ("Differential execution monitoring: sqlglot.executor.execute() vs SQLite and DuckDB on identical data for "
              "generated queries of the executor's fragment; a case is decided only when the two engines agree with each "
              "other (or one of them does not accept the syntax and DuckDB is self-consistent with its optimizer off). "
              "Held on the executions observed.")
LEVEL_TEXT += (' Predicates are also observed three-valued (NULL / FALSE / TRUE told apart in the result rows).')
LEVEL_NOTE = "trusts the consensus of SQLite 3.40.1 and DuckDB 1.5.5; ExecuteError is an allowed outcome"
TECHNIQUE = "runtime monitoring: differential execution of the Python executor against two reference engines"
RULE = ("seeded typed query generator (scan/filter/project, all join kinds, GROUP BY/HAVING, DISTINCT, ORDER BY/LIMIT/OFFSET, "
        "set operations incl. ALL, IN/EXISTS/scalar subqueries, CASE/COALESCE) x tables with NULLs, duplicates, empties; "
        "non-trivial = reference result non-empty or an input table empty; distinct = distinct (query text, data)")
ASSUMPTIONS = ["engine consensus defines the expected rows", "ORDER BY keys always carry explicit NULLS FIRST|LAST (engines' defaults differ)"]
SPEC = {
    "quick": {"shards": 16, "time_cap": 400, "cases": 12000},
    "thorough": {"shards": 16, "time_cap": 1500, "cases": 100000},
}

# Main-workload fragment. Features switched off here are triggers of listed findings, each kept alive by a
# fixed probe in PROBES (executor-specific ones) or in the C03 check (the optimizer ones, which execute() inherits
# because it runs optimize() first).
FEATS = dict(div=False, ts=False, strftime=False, nulls_order="explicit", setops_all=True, window=False,
             semi_anti=False, casts=False, like=False, ifnull=False, cte_cols=False, any_sub=False,
             mod=False,               # Python % semantics for negative operands
             agg_distinct=False,      # COUNT(DISTINCT x) counts duplicates
             distinct_order=False,    # SELECT DISTINCT ... ORDER BY ignores the ordering
             self_join=False,         # same-named columns of two sources collide in aggregation
             stars="single-source",
             derived_order_nolimit=False, outer_derived=False, subq_under_or=False, cross_join_derived=False,
             lit_left_cmp=False, star_dup_order=False, same_col_const_pair=False, group_derived_expr=False, tvl=True, deep_corr=0.15, derived_setop=0.1, agg_arith=0.3,
             scalar_subq_max=1)       # two unnested scalar subqueries both expose "_col_0": same-named columns collide in aggregation

T = sqlgen.Table
_T1 = T("t1", [("a1", sqlgen.INT), ("b1", sqlgen.INT), ("s1", sqlgen.TEXT)])
_T2 = T("t2", [("a2", sqlgen.INT), ("b2", sqlgen.INT), ("s2", sqlgen.TEXT)])
_T3 = T("t3", [("a1", sqlgen.INT), ("c3", sqlgen.INT)])
_D = {"t1": [(1, 2, "x"), (-2, 3, None), (None, 0, "y"), (1, 2, "x")], "t2": [(1, 2, "x"), (3, None, "10"), (3, 3, "q")],
      "t3": [(1, 5), (7, 6)]}
PROBES = [
    ("probe/aggregate-next-to-two-unnested-scalar-subqueries",
     "SELECT AVG(CASE WHEN d.p = 3 THEN d.p ELSE d.p END) AS m1, MAX(d.p) AS m2 FROM (SELECT (SELECT MIN(y.b1) FROM t1 AS y WHERE y.b1 = x.a1) AS p "
     "FROM t3 AS z LEFT JOIN t1 AS x ON z.c3 = x.a1 WHERE COALESCE(1, 0, x.a1) < (SELECT COUNT(w.a2) FROM t2 AS w)) AS d", False),
    ("probe/mod-negative-operand", "SELECT a1 % 3 AS p FROM t1 ORDER BY p NULLS FIRST", True),
    ("probe/count-distinct", "SELECT COUNT(DISTINCT a1) AS p FROM t1", False),
    ("probe/distinct+order-by", "SELECT DISTINCT a1 AS p FROM t1 ORDER BY p DESC NULLS FIRST", True),
    ("probe/group-by-same-named-columns-of-two-sources",
     "SELECT x1.a1 AS g, MAX(ABS(x2.a1)) AS m FROM t1 AS x1 CROSS JOIN t3 AS x2 GROUP BY x1.a1", False),
    ("probe/distinct-star-over-join-drops-duplicate-names", "SELECT DISTINCT * FROM t1 AS x JOIN t3 AS y ON x.a1 = y.a1", False),
]


def run_probes(ctx):
    from sqlglot.executor import execute

    tables = [_T1, _T2, _T3]
    E = Engines(tables, _D)
    try:
        for key, sql, ordered in PROBES:
            ctx.count("probes")
            a = E.run("sqlite", sql, ordered)
            b = E.run("duckdb", sql, ordered)
            if a[0] != "ok" or b[0] != "ok" or a[1] != b[1]:
                ctx.count("probe_without_consensus")
                continue
            tabs = {t.name: [dict(zip([c for c, _ in t.cols], r)) for r in _D[t.name]] for t in tables}
            try:
                res = execute(sql, schema=sqlgen.sqlglot_schema(tables), tables=tabs)
                rows = norm_rows([tuple(r) for r in res.rows], ordered)
                if rows != b[1] or [c.lower() for c in res.columns] != [n.lower() for n in b[2]]:
                    ctx.violation(key, {"sql": sql, "executor": rows[:6], "columns": list(res.columns), "engines": b[1][:6], "names": b[2]})
            except Exception as e:
                ctx.violation(key, {"sql": sql, "error": repr(e)[:200]})
    finally:
        E.close()


def gen_case(rng, feats=FEATS):
    tables = sqlgen.gen_schema(rng, shared=False)
    data = sqlgen.gen_data(rng, tables)
    g = sqlgen.Gen(rng, tables, feats)
    return tables, data, g.query()


def reference(E, q, mode="min"):
    """-> ('ok', rows, names) | ('drop', reason)"""
    a = E.run("sqlite", q.render("sqlite", mode), q.order_total)
    b = E.run("duckdb", q.render("duckdb", mode), q.order_total)
    if a[0] == "ok" and b[0] == "ok":
        if a[1] != b[1]:
            return ("drop", "engines_disagree")
        return ("ok", b[1], b[2])
    if b[0] == "ok":
        # SQLite does not accept the syntax (INTERSECT ALL / EXCEPT ALL): DuckDB alone, if self-consistent
        if not E.duck_self_consistent(q.render("duckdb", mode), q.order_total):
            return ("drop", "duckdb_inconsistent")
        return ("ok", b[1], b[2])
    return ("drop", "reference_rejected")


def run_case(ctx, i):
    rng = ctx.case_rng(i)
    tables, data, q = gen_case(rng)
    ctx.count("evaluations")
    check_case(ctx, q, tables, data, i)


def check_case(ctx, q, tables, data, i=1):
    from sqlglot.executor import execute
    from sqlglot.errors import ExecuteError, SqlglotError

    text = q.render("portable")
    E = Engines(tables, data)
    try:
        ref = reference(E, q)
        if ref[0] != "ok":
            ctx.count("dropped:" + ref[1])
            return
        ctx.count("consensus_cases")
        schema = sqlgen.sqlglot_schema(tables)
        tabs = {t.name: [dict(zip([c for c, _ in t.cols], r)) for r in data[t.name]] for t in tables}
        case = {"sql": text, "tables": [(t.name, t.cols) for t in tables], "data": data}
        try:
            res = execute(text, schema=schema, tables=tabs)
        except ExecuteError as e:
            ctx.count("execute_error")
            ctx.count("execute_error_cause:" + type(e.__cause__ or e.__context__).__name__)
            return
        except SqlglotError as e:
            ctx.count("other_sqlglot_error:" + type(e).__name__)
            return
        except Exception as e:
            ctx.violation(f"internal-exception:{type(e).__name__}", {"sql": text, "error": repr(e)[:300]}, case)
            return
        rows = norm_rows([tuple(r) for r in res.rows], q.order_total)
        ctx.count("compared")
        if ref[1] or any(not data[t.name] for t in tables):
            ctx.nt([text, data])
        if i % 397 == 0:
            ctx.sample({"sql": text, "rows": rows[:3]})
        if rows != ref[1]:
            ctx.violation("rows-differ", {"sql": text, "executor": rows[:8], "engines": ref[1][:8], "tags": sorted(q.tags)}, case)
        elif [c.lower() for c in res.columns] != [n.lower() for n in ref[2]]:
            ctx.violation("column-names-differ", {"sql": text, "executor": list(res.columns), "engines": ref[2]}, case)
        for t in q.tags:
            ctx.count("tag:" + t.split(":")[0])
    finally:
        E.close()


def worker(ctx):
    for i in ctx.mine(SPEC[ctx.tier]["cases"]):
        if ctx.expired():
            break
        run_case(ctx, i)
    if ctx.shard == 0:
        run_probes(ctx)


def conclude(agg):
    c = agg["counters"]
    need = 500 if agg["tier"] == "quick" else 5000
    out = []
    if c["compared"] < need:
        out.append(f"only {c['compared']} executor results were compared with an engine consensus (minimum {need})")
    return out


def replay(rec):
    """re-runs the stored SQL text on the stored tables and data"""
    from ..runner import ReplayCtx

    ctx = ReplayCtx()
    case = rec["case"]
    tables = [sqlgen.Table(n, [tuple(c) for c in cols]) for n, cols in case["tables"]]
    data = {k: [tuple(r) for r in v] for k, v in case["data"].items()}

    class Q:
        order_total = " ORDER BY " in case["sql"]
        tags = set()

        def render(self, prof="duckdb", mode="min"):
            return case["sql"]
    _replay_case(ctx, Q(), tables, data, case)
    return ctx.report()


def _replay_case(ctx, q, tables, data, case):
    check_case(ctx, q, tables, data)

"""C20 - an AST diff accounts for every node once and is empty only for equal trees."""
from __future__ import annotations

import collections
import copy as _copy

from ..gen import stmts, sqlgen, shrink
from ..oracle import canon

LEVEL_TEXT = ("Edit-script auditing: for derived (edited) pairs, independent pairs, a tree against its copy / itself, and "
              "repetitive trees, with and without caller-supplied matchings, the script returned by diff() must account for "
              "every non-identifier node of both sides exactly once, pair only nodes of the same type, have an empty delta "
              "exactly when the trees are equal (independent canonical form), equal the delta_only script plus Keep edits, "
              "and leave both inputs untouched (deep fingerprint).")
LEVEL_TEXT += (' Pairs that differ only in the value of a string or flag argument of an inner node (join kind / side, window frame kind, TRIM position ...) are part of the workload.')
LEVEL_NOTE = "exactly-once accounting is done over object identities, or per-class multisets when diff() had to copy shared inputs"
TECHNIQUE = "runtime monitoring: exactly-once / conservation oracle over recorded edit scripts"
RULE = ("pairs (q, structural edit of q) from the query generator's own derivation, pairs of independent statements, "
        "tree vs copy, repetitive trees; non-trivial = both sides have >= 10 non-identifier nodes; distinct = distinct (source sql, target sql)")
ASSUMPTIONS = ["Identifier nodes are not diffed (documented): trees that differ only in identifiers are outside 'delta empty iff equal' (listed finding)"]
SPEC = {
    "quick": {"shards": 16, "time_cap": 400, "pairs": 12000},
    "thorough": {"shards": 16, "time_cap": 1500, "pairs": 80000},
}


def non_ident(t):
    from sqlglot import exp

    return [n for n in t.bfs() if not isinstance(n, exp.Identifier)]


def canon_noident(n):
    c = canon.canon(n)

    def strip(x):
        if isinstance(x, tuple):
            if len(x) == 2 and x[0] == "identifier" and isinstance(x[1], tuple):
                return ("identifier",)
            return tuple(strip(i) for i in x)
        return x
    return strip(c)


def audit(ctx, s, t, case, matchings=None):
    from sqlglot import exp
    from sqlglot.diff import diff, Insert, Remove, Move, Update, Keep

    fs, ft = canon.fingerprint(s), canon.fingerprint(t)
    s_nodes, t_nodes = list(s.walk()), list(t.walk())
    # node objects shared between the inputs, or one object at two positions of one input: the library then works on copies,
    # so the script is accounted by class multiset instead of by identity
    shared = (s is t or bool({id(n) for n in s_nodes} & {id(n) for n in t_nodes})
              or len({id(n) for n in s_nodes}) != len(s_nodes) or len({id(n) for n in t_nodes}) != len(t_nodes))
    try:
        full = diff(s, t, matchings=matchings, delta_only=False)
        delta = diff(s, t, matchings=matchings, delta_only=True)
    except RecursionError:
        ctx.count("recursion_error")
        return
    except Exception as e:
        ctx.violation(f"diff-raises:{type(e).__name__}", {"source": case["source"], "target": case["target"], "error": repr(e)[:200]}, case)
        return
    ctx.count("edit_scripts_audited")
    ctx.count("evaluations")
    sn, tn = non_ident(s), non_ident(t)
    if len(sn) >= 10 and len(tn) >= 10:
        ctx.nt([case["source"], case["target"]])

    def viol(sig, **detail):
        ctx.violation(sig, {"source": case["source"][:300], "target": case["target"][:300], **detail}, case)

    if canon.fingerprint(s) != fs or canon.fingerprint(t) != ft:
        viol("input-changed")
        return
    src_side, tgt_side = [], []
    for e in full:
        if isinstance(e, Remove):
            src_side.append(e.expression)
        elif isinstance(e, Insert):
            tgt_side.append(e.expression)
        elif isinstance(e, (Keep, Update)):
            src_side.append(e.source)
            tgt_side.append(e.target)
            if type(e.source) is not type(e.target):
                viol(f"paired-different-types:{type(e).__name__}", pair=[type(e.source).__name__, type(e.target).__name__])
                return
        elif isinstance(e, Move):
            if type(e.source) is not type(e.target):
                viol("paired-different-types:Move", pair=[type(e.source).__name__, type(e.target).__name__])
                return
        else:
            viol("unknown-edit-kind", kind=type(e).__name__)
            return
    if any(isinstance(n, exp.Identifier) for n in src_side + tgt_side):
        viol("identifier-in-script")
        return
    if shared:
        for side, got, want in (("source", src_side, sn), ("target", tgt_side, tn)):
            a = collections.Counter(type(n).__name__ for n in got)
            b = collections.Counter(type(n).__name__ for n in want)
            if a != b:
                viol(f"accounting:{side}:class-multiset", got=dict(a - b), missing=dict(b - a))
                return
    else:
        for side, got, want in (("source", src_side, sn), ("target", tgt_side, tn)):
            gi = collections.Counter(id(n) for n in got)
            wi = {id(n) for n in want}
            dup = [k for k, v in gi.items() if v > 1]
            if dup:
                viol(f"accounting:{side}:node-twice", count=len(dup))
                return
            if set(gi) != wi:
                miss = [type(n).__name__ for n in want if id(n) not in gi]
                extra = len(set(gi) - wi)
                viol(f"accounting:{side}:{'missing' if miss else 'foreign'}-node", missing=miss[:5], foreign=extra)
                return
    ctx.count("accounting_checks")
    # delta emptiness
    real_delta = [e for e in full if not isinstance(e, Keep)]
    equal = canon.canon_equal(s, t)
    ident_only = (not equal) and type(s) is type(t) and canon_noident(s) == canon_noident(t)
    if equal and real_delta:
        viol("delta-nonempty-for-equal-trees", delta=[type(e).__name__ for e in real_delta][:6])
        return
    if not equal and not real_delta and not ident_only:
        viol("delta-empty-for-different-trees")
        return
    if ident_only:
        ctx.count("identifier_only_difference(skipped)")
    ctx.count("delta_emptiness_checks")
    # delta_only == full minus Keep (by kind and classes, identities when not copied)
    key = (lambda e: (type(e).__name__,) + tuple(type(getattr(e, a)).__name__ for a in ("expression", "source", "target") if hasattr(e, a)))
    if shared:
        if collections.Counter(map(key, delta)) != collections.Counter(map(key, real_delta)):
            viol("delta_only-differs-from-full-minus-keep")
    else:
        kid = (lambda e: (type(e).__name__,) + tuple(id(getattr(e, a)) for a in ("expression", "source", "target") if hasattr(e, a)))
        if collections.Counter(map(kid, delta)) != collections.Counter(map(kid, real_delta)):
            viol("delta_only-differs-from-full-minus-keep")


def edited_pair(rng, tables):
    """(source text, target text) where target is a structural edit of the source (own derivation)"""
    g = sqlgen.Gen(rng, tables, dict(window=True))
    q = g.query()
    variants = list(shrink._variants_query(q))
    if not variants:
        return None
    tq = q
    for _ in range(rng.randint(1, 3)):
        vs = list(shrink._variants_query(tq))
        if not vs:
            break
        tq = rng.choice(vs)[1]
    return q.render("portable"), tq.render("portable")


def repetitive(rng):
    cols = [rng.choice(["a", "b", "1", "'x'", "f(a)"]) for _ in range(rng.randint(3, 9))]
    preds = " AND ".join(rng.choice(["a = 1", "b = 1", "a = b", "f(a) > 1"]) for _ in range(rng.randint(1, 6)))
    s = f"SELECT {', '.join(cols)} FROM t WHERE {preds}"
    cols2 = list(cols)
    for _ in range(rng.randint(0, 3)):
        k = rng.randrange(len(cols2))
        r = rng.random()
        if r < 0.3 and len(cols2) > 1:
            del cols2[k]
        elif r < 0.6:
            cols2.insert(k, rng.choice(["a", "2", "g(b)"]))
        else:
            cols2[k], cols2[0] = cols2[0], cols2[k]
    t = f"SELECT {', '.join(cols2)} FROM t WHERE {preds}" + (" AND a = 1" if rng.random() < 0.3 else "")
    return s, t


SWAPS = [("CONCAT_WS('-', a, b)", "CONCAT('-', a, b)"), ("TRY_CAST(a AS INT)", "CAST(a AS INT)"), ("SAFE_DIVIDE(a, b)", "a / b"),
         ("COUNT(DISTINCT a)", "COUNT(a)"), ("a ILIKE 'x%'", "a LIKE 'x%'"), ("COALESCE(a, b)", "IFNULL(a, b)"), ("a IS DISTINCT FROM b", "a <> b"),
         ("ARRAY_AGG(a ORDER BY b)", "ARRAY_AGG(a)"), ("SUM(a) OVER (PARTITION BY b)", "SUM(a)"), ("CAST(a AS DECIMAL(10, 2))", "CAST(a AS DECIMAL)"),
         ("a NOT IN (1, 2)", "a IN (1, 2)"), ("LEFT(s, 1)", "RIGHT(s, 1)"), ("GREATEST(a, b)", "LEAST(a, b)")]
HIVE_SWAPS = [("SELECT k, v FROM t SORT BY k, v", "SELECT k, v FROM t ORDER BY k, v"), ("SELECT k FROM t CLUSTER BY k", "SELECT k FROM t DISTRIBUTE BY k")]


# pairs whose only difference is the *value* of a non-expression argument (a string or a flag) of an inner node
ARG_SWAPS = [("SELECT * FROM a LEFT JOIN b ON a.x = b.x", "SELECT * FROM a RIGHT JOIN b ON a.x = b.x"),
             ("SELECT * FROM a INNER JOIN b ON a.x = b.x", "SELECT * FROM a CROSS JOIN b ON a.x = b.x"),
             ("SELECT * FROM a LEFT JOIN b ON a.x = b.x", "SELECT * FROM a FULL JOIN b ON a.x = b.x"),
             ("SELECT * FROM a LEFT SEMI JOIN b ON a.x = b.x", "SELECT * FROM a LEFT ANTI JOIN b ON a.x = b.x"),
             ("SELECT * FROM a INNER JOIN b USING (x)", "SELECT * FROM a OUTER JOIN b USING (x)"),
             ("SELECT SUM(a) OVER (ORDER BY b ROWS BETWEEN 1 PRECEDING AND CURRENT ROW) FROM t", "SELECT SUM(a) OVER (ORDER BY b RANGE BETWEEN 1 PRECEDING AND CURRENT ROW) FROM t"),
             ("SELECT SUM(a) OVER (ORDER BY b ROWS BETWEEN 1 PRECEDING AND 2 FOLLOWING) FROM t", "SELECT SUM(a) OVER (ORDER BY b ROWS BETWEEN 1 FOLLOWING AND 2 FOLLOWING) FROM t"),
             ("SELECT SUM(a) OVER (ORDER BY b ROWS BETWEEN UNBOUNDED PRECEDING AND CURRENT ROW) FROM t", "SELECT SUM(a) OVER (ORDER BY b ROWS BETWEEN CURRENT ROW AND CURRENT ROW) FROM t"),
             ("SELECT TRIM(LEADING 'x' FROM s) FROM t", "SELECT TRIM(TRAILING 'x' FROM s) FROM t"),
             ("SELECT a FROM t ORDER BY a NULLS FIRST", "SELECT a FROM t ORDER BY a NULLS LAST"),
             ("SELECT a FROM t ORDER BY a DESC, b", "SELECT a FROM t ORDER BY a, b DESC"),
             ("SELECT a FROM t UNION SELECT a FROM u", "SELECT a FROM t UNION ALL SELECT a FROM u"),
             ("SELECT a FROM t FOR UPDATE", "SELECT a FROM t FOR SHARE"),
             ("SELECT a FROM t TABLESAMPLE BERNOULLI (10)", "SELECT a FROM t TABLESAMPLE SYSTEM (10)"),
             ("CREATE TEMPORARY TABLE t (a INT)", "CREATE TABLE t (a INT)"),
             ("CREATE TABLE t (a INT)", "CREATE VIEW t (a INT)"),
             ("SELECT a FROM t WHERE s LIKE 'x' ESCAPE 'y'", "SELECT a FROM t WHERE s LIKE 'x' ESCAPE 'z'")]


SIMILAR_NUM = ["10", "100", "1000", "10000", "1000000", "11", "1111", "111111", "1212", "121212", "1000.0", "0.0001", "0.01"]
SIMILAR_STR = ["'aa'", "'aaaa'", "'aaaaaaaa'", "'abab'", "'abababab'", "'xyxy'", "'xy'", "'2020-02-02'", "'2020-02-20 20:20:20'"]


def similar_leaves(rng):
    """a statement whose literal leaves share repeated character bigrams in different multiplicities (1000 / 1000000,
    'abab' / 'abababab'): leaf matching must still pair every leaf of a tree with its own copy"""
    num = lambda: rng.choice(SIMILAR_NUM)
    st = lambda: rng.choice(SIMILAR_STR)
    projs = [rng.choice([num(), st(), f"a + {num()}", f"COALESCE(s, {st()})", f"f({num()}, {num()})"]) for _ in range(rng.randint(2, 5))]
    preds = [rng.choice([f"x > {num()}", f"y < {num()}", f"s = {st()}", f"s LIKE {st()}", f"x BETWEEN {num()} AND {num()}", f"x IN ({num()}, {num()}, {num()})"])
             for _ in range(rng.randint(1, 4))]
    return f"SELECT {', '.join(projs)} FROM t WHERE {(' AND ' if rng.random() < 0.7 else ' OR ').join(preds)}"


def class_swap(rng):
    """pairs that differ in one node whose class is a sub / super / sibling class of the other's"""
    a, b = rng.choice(SWAPS)
    if rng.random() < 0.5:
        a, b = b, a
    tail = rng.choice(["", " WHERE c > 1", " GROUP BY c", " ORDER BY c"])
    alias = rng.choice([" AS x", ""])
    return f"SELECT c, {a}{alias} FROM t{tail}", f"SELECT c, {b}{alias} FROM t{tail}", None


def run_case(ctx, i):
    import sqlglot
    from sqlglot.errors import SqlglotError

    rng = ctx.case_rng(i)
    tables = sqlgen.gen_schema(rng)
    kind = rng.choice(["edited", "edited", "edited", "independent", "copy", "self", "repetitive", "repetitive", "matchings", "class-swap", "class-swap",
                       "similar-leaves-copy", "similar-leaves-copy"])
    read = None
    try:
        if kind == "class-swap":
            r0 = rng.random()
            if r0 < 0.15:
                a, b = rng.choice(HIVE_SWAPS)
                if rng.random() < 0.5:
                    a, b = b, a
                read = "hive"
            elif r0 < 0.45:
                a, b = rng.choice(ARG_SWAPS)
                if rng.random() < 0.5:
                    a, b = b, a
                ctx.count("kind:arg-value-swap")
            else:
                a, b, read = class_swap(rng)
            s, t = sqlglot.parse_one(a, read=read), sqlglot.parse_one(b, read=read)
            case = {"source": a, "target": b, "kind": kind}
            ctx.count("kind:" + kind)
            audit(ctx, s, t, case, None)
            return
        if kind in ("edited", "matchings"):
            p = edited_pair(rng, tables)
            if not p:
                return
            a, b = p
        elif kind == "independent":
            a, b = stmts.gen_statement(rng, tables)[0], stmts.gen_statement(rng, tables)[0]
        elif kind == "repetitive":
            a, b = repetitive(rng)
        elif kind == "similar-leaves-copy":
            a = b = similar_leaves(rng)
        else:
            a = stmts.gen_statement(rng, tables)[0]
            b = a
        s, t = sqlglot.parse_one(a), sqlglot.parse_one(b)
    except SqlglotError:
        return
    if sum(1 for _ in s.walk()) > 150 or sum(1 for _ in t.walk()) > 150:
        ctx.count("too_large_skipped")
        return
    case = {"source": a, "target": b, "kind": kind}
    ctx.count("kind:" + kind)
    matchings = None
    if kind == "self":
        t = s
    elif kind in ("copy", "similar-leaves-copy"):
        t = s.copy()
        if i % 3 == 0:
            # the same (non-identifier) node object at two positions of the source, as transform() with a reused replacement
            # produces: the diff must still account for both positions
            from sqlglot import exp as _exp

            leaves = [n for n in s.find_all(_exp.Literal)]
            if len(leaves) >= 2:
                shared = _exp.Literal.number(41)
                s = s.transform(lambda n: shared if (n is leaves[0] or n is leaves[-1]) else n, copy=False)
                t = s.copy()
                case = dict(case, shared_node=True)
                ctx.count("kind:shared-node-copy")
    elif kind == "matchings":
        matchings = [(s, t)] if type(s) is type(t) else None
    audit(ctx, s, t, case, matchings)
    if i % 701 == 0:
        ctx.sample(case)


PROBES = [
    ("probe/identifier-only-change-gives-empty-delta", "SELECT a FROM t JOIN u USING (k)", "SELECT a FROM t JOIN u USING (j)"),
]


def worker(ctx):
    import sqlglot
    from sqlglot.diff import diff, Keep

    for i in ctx.mine(SPEC[ctx.tier]["pairs"]):
        if ctx.expired():
            break
        run_case(ctx, i)
    if ctx.shard == 0:
        for key, a, b in PROBES:
            ctx.count("probes")
            s, t = sqlglot.parse_one(a), sqlglot.parse_one(b)
            d = [e for e in diff(s, t) if not isinstance(e, Keep)]
            if not d and not canon.canon_equal(s, t):
                ctx.violation(key, {"source": a, "target": b, "delta": []})


def conclude(agg):
    c = agg["counters"]
    need = 1500 if agg["tier"] == "quick" else 15000
    if c["edit_scripts_audited"] < need:
        return [f"only {c['edit_scripts_audited']} edit scripts audited (minimum {need})"]
    return []

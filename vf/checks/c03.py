"""C03 - the optimizer never changes what a query returns (DuckDB as the judge)."""
from __future__ import annotations

import inspect

from ..gen import sqlgen
from ..oracle.engines import Engines

LEVEL_TEXT = ("Differential execution monitoring: each generated query runs on DuckDB, then the output of every prefix of "
              "optimizer.RULES (applied one rule at a time by the harness exactly as optimize() does, plus one call of the "
              "real optimize()) and of every (qualify, rule) pair runs on the same database; rows (multiset, or sequence "
              "under a total ORDER BY) and column names must be unchanged. The first differing prefix names the rule.")
LEVEL_TEXT += (' The workload includes derived tables on the null-supplying side (bare-column projections), correlated references below derived tables, NATURAL JOINs and three-valued observers of predicates.')
LEVEL_NOTE = "trusts DuckDB 1.5.5 (cross-checked against itself with its optimizer disabled before a mismatch is blamed on sqlglot)"
TECHNIQUE = "runtime monitoring: differential execution of original vs optimized SQL per rule prefix on DuckDB"
RULE = ("seeded typed query generator (joins of every kind, derived tables, CTEs used once/many times, correlated and "
        "uncorrelated IN/EXISTS/scalar/ANY subqueries, GROUP BY/HAVING, DISTINCT, windows, LIMIT, set operations) x small "
        "databases with NULLs, duplicates and empty tables; non-trivial = at least one rule changed the SQL text; "
        "distinct = distinct original text")
ASSUMPTIONS = ["DuckDB 1.5.5 defines the expected rows", "rules are applied with the keyword arguments optimize() itself would pass"]
SPEC = {
    "quick": {"shards": 16, "time_cap": 400, "cases": 6000},
    "thorough": {"shards": 16, "time_cap": 1500, "cases": 60000},
}

# Main-workload fragment. The switched-off features are the triggers of listed findings (KNOWN_FINDINGS.txt);
# each has a fixed regression probe in PROBES below.
FEATS = dict(div=False, ts=False, strftime=False, nulls_order=True, setops_all=True, window=True,
             semi_anti=False, casts=True, like=True, mod=True, ifnull=False, cte_cols=False,
             full_join=True,
             derived_window=False,          # pushdown_projections / merge_subqueries mishandle windows in derived tables (probes)
             any_sub=False,                 # unnest_subqueries compares the operand with a boolean for correlated ANY
             group_derived_expr=False,      # simplify rewrites an inlined GROUP BY expression differently from SELECT
             derived_order_nolimit=False,   # merge_subqueries keeps an inner ORDER BY that names dropped aliases
             outer_derived="plain",         # merge_subqueries inlines constants / non-strict expressions from the null-supplying
                                            # side: derived tables there project bare columns only
             tvl=True, deep_corr=0.2, natural_join=0.1, derived_setop=0.12, agg_arith=0.3,
             subq_under_or=False,           # unnest_subqueries turns a subquery predicate under NOT / OR into a join filter
             cross_join_derived=False,      # eliminate_joins drops a cross-joined derived table that may be empty
             same_col_const_pair=False,     # simplify folds `c = 1 AND c < 0` to FALSE although it is NULL for NULL (C06 finding)
             lit_left_cmp=False,            # simplify flips `7 <> x` in SELECT but not in GROUP BY
             star_dup_order=False,          # qualify turns ORDER BY ordinals into ambiguous names
             stars="single-source")         # qualify expands * with CTE columns first

T = sqlgen.Table
_T1 = T("t1", [("k", sqlgen.INT), ("a1", sqlgen.INT), ("b1", sqlgen.INT), ("s1", sqlgen.TEXT)])
_T2 = T("t2", [("k", sqlgen.INT), ("a2", sqlgen.INT), ("b2", sqlgen.INT), ("s2", sqlgen.TEXT)])
_D = {"t1": [(1, 2, 2, "x"), (2, -2, 3, None), (None, 0, 1, "y"), (5, 5, 5, "")], "t2": [(1, 2, 2, "x"), (3, 3, None, "10")]}
PROBES = [
    ("probe/merge_subqueries:aggregate-over-outer-column-of-merged-derived-table",
     "SELECT d4.p3 FROM (SELECT b1 AS p3 FROM t1 AS x1) AS d4 WHERE p3 % 7 >= (SELECT SUM(d6.p3) FROM (SELECT p3, x5.a2 FROM t2 AS x5) AS d6 "
     "WHERE d6.a2 = d4.p3)"),
    ("probe/merge_subqueries:inner-order-by-without-limit",
     "SELECT 0 AS p5 FROM (SELECT x1.a2 AS p2, x1.k AS p3 FROM t2 AS x1 ORDER BY p2 NULLS FIRST, p3 NULLS FIRST) AS c4"),
    ("probe/merge_subqueries:constant-from-null-supplying-side",
     "SELECT d9.p8 FROM t2 AS x4 LEFT JOIN (SELECT x5.a1 AS p7, 3 AS p8 FROM t1 AS x5) AS d9 ON x4.b2 = d9.p7"),
    ("probe/pushdown_predicates:disjunct-pushed-below-or",
     "SELECT d17.p16 AS p20 FROM (SELECT a1 AS p16 FROM t1 AS x15) AS d17 WHERE NOT EXISTS (SELECT 1 FROM t2 AS x18 "
     "WHERE x18.k = d17.p16 AND x18.k IN (7, 3)) OR p16 + d17.p16 BETWEEN p16 AND 0"),
    ("probe/unnest_subqueries:correlated-any-compared-with-boolean",
     "SELECT x3.s2 FROM t2 AS x3 WHERE 1 + 1 < ANY (SELECT t2.b2 FROM t2 WHERE t2.a2 = x3.a2)"),
    ("probe/simplify:parentheses-lost-when-case-folds-to-a-sum",
     "SELECT CASE WHEN 'y' >= 'q' THEN x.a1 + x.b1 ELSE 3 END * x.b1 AS p12 FROM t1 AS x"),
    ("probe/unnest_subqueries:subquery-predicate-under-not",
     "SELECT * FROM t1 WHERE NOT (t1.k <> (SELECT MAX(x6.k) FROM t2 AS x6) AND 2 IN (SELECT x7.a2 FROM t2 AS x7 WHERE x7.k = t1.k))"),
    ("probe/simplify:or-of-two-bounds-on-one-column-keeps-the-wrong-one",
     "SELECT CASE WHEN '' <= x1.s1 OR x1.s1 > '' THEN 1 ELSE 0 END AS p3 FROM t1 AS x1"),
    ("probe/pushdown_projections:unused-window-projection-replaced-by-MAX(1)",
     "WITH cte1 AS (SELECT MIN(3 - x1.b1) OVER () + 0 AS p4, x1.k AS p5 FROM t1 AS x1) SELECT COUNT(2) AS m9 FROM cte1 AS c8"),
    ("probe/unnest_subqueries:correlated-in-subquery-with-group-by",
     "SELECT x3.a1 AS p5 FROM t1 AS x3 WHERE x3.b1 IN (SELECT x4.k FROM t1 AS x4 WHERE x4.k = x3.a1 GROUP BY x4.k, x4.s1)"),
    ("probe/eliminate_joins:cross-joined-derived-table-may-be-empty",
     "SELECT x1.a1 AS p9 FROM t1 AS x1 CROSS JOIN (SELECT MAX(a2) AS m7 FROM t2 AS x2 WHERE x2.a2 > 100 GROUP BY x2.k) AS d8"),
    ("probe/simplify:comparison-flipped-in-select-not-in-group-by",
     "SELECT p22 AS g26, MAX(CASE WHEN d24.p22 > 0 THEN d24.p22 END) AS m27 FROM (SELECT CASE WHEN 7 <> x12.b2 THEN 1 ELSE 0 END % 7 "
     "AS p22 FROM t2 AS x12) AS d24 GROUP BY p22"),
    ("probe/qualify:order-by-ordinal-becomes-ambiguous-name",
     "SELECT * FROM t2 AS x1 CROSS JOIN t2 AS x2 ORDER BY 2 NULLS LAST, 7 DESC NULLS FIRST, 1 NULLS FIRST, 5 NULLS FIRST"),
    ("probe/qualify:star-expands-cte-columns-first",
     "WITH cte1 AS (SELECT t1.a1 AS p3 FROM t1) SELECT * FROM t2 AS x6 JOIN cte1 AS c7 ON x6.a2 = c7.p3"),
    ("probe/simplify:case-with-constant-true-later-branch",
     "SELECT CASE WHEN x1.a1 <> x1.b1 THEN -1 WHEN 1 <> 3 THEN x1.a1 ELSE 0 END AS p2 FROM t1 AS x1"),
]


class _Capture:
    """ctx stand-in that records what a probe would have reported."""

    def __init__(self, ctx):
        self.ctx, self.v = ctx, []

    def count(self, k, n=1):
        pass

    def nt(self, k):
        pass

    def sample(self, *a, **k):
        pass

    def violation(self, sig, detail, case=None):
        self.v.append((sig, detail))


def run_probes(ctx):
    class Q:  # minimal query-like object for fixed text
        def __init__(self, ordered):
            self.order_total, self.tags = ordered, set()

    E = Engines([_T1, _T2], _D, want={"duckdb"})
    try:
        for key, sql in PROBES:
            ctx.count("probes")
            cap = _Capture(ctx)
            check_query(cap, E, Q(" ORDER BY " in sql and "AS c4" not in sql), sql, [_T1, _T2], _D)
            if cap.v:
                ctx.violation(key, {"observed": cap.v[0][0], **cap.v[0][1]})
    finally:
        E.close()


def rule_kwargs(rule, schema, dialect):
    from sqlglot.schema import ensure_schema

    possible = {"db": None, "catalog": None, "schema": schema, "dialect": dialect, "sql": None,
                "isolate_tables": True, "quote_identifiers": False}
    params = inspect.getfullargspec(rule).args
    return {p: possible[p] for p in params if p in possible}


def targeted(rng, tables):
    """Shapes that sit on the eliminate_joins / eliminate_ctes / merge guards (plain text, unordered)."""
    t, u = rng.sample(tables, 2) if len(tables) > 1 else (tables[0], tables[0])
    ic = lambda tb: rng.choice([c for c, ty in tb.cols if ty == sqlgen.INT])
    a, b, c, d = ic(t), ic(u), ic(u), ic(t)
    agg = rng.choice(["MAX", "MIN", "SUM", "COUNT"])
    jk = rng.choice(["LEFT JOIN", "LEFT JOIN", "JOIN", "RIGHT JOIN", "FULL JOIN"])
    sel = rng.choice([f"x.{a} AS p1", f"x.{a} AS p1, x.{d} + 1 AS p2", f"x.{a} AS p1, y.{'m' if rng.random() < 0.5 else 'g'} AS p2"])
    shape = rng.randrange(10)
    if shape >= 8:
        # IN / ANY against a grouped subquery (one or two keys, selecting one of them): semi-join semantics must
        # not multiply outer rows
        neg = rng.choice(["", "", "NOT "])
        keys = rng.choice([f"y.{b}", f"y.{b}, y.{c}", f"y.{c}, y.{b}"])
        having = rng.choice(["", "", f" HAVING COUNT(*) > {rng.choice([0, 1])}"])
        form = rng.choice(["in", "in", "any"])
        pred = f"x.{a} {neg}IN (SELECT y.{b} FROM {u.name} AS y GROUP BY {keys}{having})" if form == "in" else \
               f"x.{a} = ANY (SELECT y.{b} FROM {u.name} AS y GROUP BY {keys}{having})"
        sel = rng.choice([f"x.{a} AS p1, x.{d} AS p2", "COUNT(*) AS p1", f"x.{a} AS p1"])
        return f"SELECT {sel} FROM {t.name} AS x WHERE {pred}"
    if shape >= 5:
        # the window guard of pushdown_predicates / merge_subqueries: every projection of the derived table is used outside
        part = rng.choice(["", f"PARTITION BY {a}", f"PARTITION BY {d}"])
        order = rng.choice(["", f"ORDER BY {a} NULLS FIRST, {d} NULLS FIRST" if not part else ""])
        fn = rng.choice([f"SUM({d})", f"MAX({a})", "COUNT(*)", f"MIN({d})"])
        win = f"{fn} OVER ({part})" if not order else f"{fn} OVER ({' '.join(x for x in (part, order + ' ROWS BETWEEN UNBOUNDED PRECEDING AND UNBOUNDED FOLLOWING') if x)})"
        wexpr = rng.choice([win, f"{win} + 0", f"COALESCE({win}, 0)", f"CASE WHEN {win} > 1 THEN 1 ELSE 0 END", f"-({win})", f"({win}) * 2"])
        pred = rng.choice([f"y.g > {rng.choice([0, 1, 2])}", f"y.g = {rng.choice([0, 1, 2, 3])}", f"y.w >= {rng.choice([0, 1, 2])}", f"y.g IS NOT NULL",
                           f"y.g IN (1, 2)", f"y.g + y.w > 2"])
        inner = f"SELECT {a} AS g, {wexpr} AS w FROM {t.name}"
        if shape == 5:
            return f"SELECT y.g AS p1, y.w AS p2 FROM ({inner}) AS y WHERE {pred}"
        if shape == 6:
            return f"WITH y AS ({inner}) SELECT y.g AS p1, y.w AS p2 FROM y WHERE {pred}"
        return f"SELECT y.g AS p1, y.w AS p2, x.{b} AS p3 FROM {u.name} AS x JOIN ({inner}) AS y ON x.{b} = y.g WHERE {pred}"
    if shape == 0:   # unique right side through GROUP BY
        return f"SELECT {sel} FROM {t.name} AS x {jk} (SELECT {b} AS g, {agg}({c}) AS m FROM {u.name} GROUP BY {b}) AS y ON x.{a} = y.g"
    if shape == 1:   # unique right side through DISTINCT
        return f"SELECT {sel.replace('y.m', 'y.g')} FROM {t.name} AS x {jk} (SELECT DISTINCT {b} AS g FROM {u.name}) AS y ON x.{a} = y.g"
    if shape == 2:   # not unique: join key is not the group key
        return f"SELECT {sel} FROM {t.name} AS x {jk} (SELECT {b} AS g, {agg}({c}) AS m FROM {u.name} GROUP BY {b}) AS y ON x.{a} = y.m"
    if shape == 3:   # unused and multiply used CTEs
        return (f"WITH c1 AS (SELECT {b} AS g, {agg}({c}) AS m FROM {u.name} GROUP BY {b}), c2 AS (SELECT g FROM c1 WHERE m > 0) "
                f"SELECT x.{a} AS p1 FROM {t.name} AS x {jk} c1 AS y ON x.{a} = y.g")
    return (f"SELECT {sel} FROM {t.name} AS x {jk} (SELECT {b} AS g, {agg}({c}) AS m FROM {u.name} GROUP BY {b}) AS y ON x.{a} = y.g "
            f"{jk} (SELECT DISTINCT {c} AS g FROM {u.name}) AS z ON x.{d} = z.g")


class _TextQuery:
    def __init__(self, text):
        self.text, self.order_total, self.tags = text, False, {"targeted"}

    def render(self, prof="duckdb", mode="min"):
        return self.text


def run_case(ctx, i, feats=FEATS):
    import sqlglot
    from sqlglot import exp
    from sqlglot.errors import OptimizeError, SqlglotError
    from sqlglot.optimizer import optimizer as O
    from sqlglot.schema import ensure_schema

    rng = ctx.case_rng(i)
    tables = sqlgen.gen_schema(rng)
    data = sqlgen.gen_data(rng, tables)
    if i % 8 >= 6:
        q = _TextQuery(targeted(rng, tables))
        ctx.count("targeted_shapes")
    else:
        g = sqlgen.Gen(rng, tables, feats, prof="duckdb")
        q = g.query()
    text = q.render("duckdb")
    ctx.count("evaluations")
    E = Engines(tables, data, want={"duckdb"})
    try:
        check_query(ctx, E, q, text, tables, data, i)
    finally:
        E.close()


def check_query(ctx, E, q, text, tables, data, i=0, sigprefix=""):
    import sqlglot
    from sqlglot import exp
    from sqlglot.errors import OptimizeError, SqlglotError
    from sqlglot.optimizer import optimizer as O
    from sqlglot.schema import ensure_schema

    ordered = q.order_total
    base = E.run("duckdb", text, ordered)
    if base[0] != "ok":
        ctx.count("reference_rejected")
        return
    schema_dict = sqlgen.sqlglot_schema(tables)
    case = {"sql": text, "tables": [(t.name, t.cols) for t in tables], "data": data}
    RULES = O.RULES
    names = [r.__name__ for r in RULES]
    changed_any = False

    def compare(label, sql_out):
        """-> True if ok"""
        out = E.run("duckdb", sql_out, ordered)
        ctx.count("executions_compared")
        bad = None
        if out[0] != "ok" and "INTERNAL Error" in out[1]:
            ctx.count("engine_bug_dropped")   # DuckDB's own assertion failure, not a verdict on the SQL
            return True
        if out[0] != "ok":
            bad = ("engine-rejects-output", out[1])
        elif out[1] != base[1]:
            bad = ("rows-differ", {"orig": base[1][:6], "opt": out[1][:6]})
        elif [n.lower() for n in out[2]] != [n.lower() for n in base[2]]:
            bad = ("column-names-differ", {"orig": base[2], "opt": out[2]})
        if bad is None:
            return True
        if not E.duck_self_consistent(text, ordered) or (out[0] == "ok" and not E.duck_self_consistent(sql_out, ordered)):
            ctx.count("engine_bug_dropped")
            return True
        ctx.violation(f"{sigprefix}{bad[0]}:{label}", {"sql": text, "optimized": sql_out, "what": bad[1], "tags": sorted(q.tags)}, case)
        return False

    # ---- prefixes, one rule at a time -------------------------------------------
    schema = ensure_schema(schema_dict, dialect="duckdb")
    try:
        tree = exp.maybe_parse(text, dialect="duckdb", copy=True)
    except SqlglotError as e:
        ctx.violation(f"{sigprefix}parse-error", {"sql": text, "error": str(e)[:200]}, case)
        return
    prev_sql = None
    failed = False
    qualified = None
    for k, rule in enumerate(RULES):
        try:
            tree = rule(tree, **rule_kwargs(rule, schema, "duckdb"))
        except OptimizeError:
            ctx.count("optimize_error:" + names[k])
            break
        except SqlglotError as e:
            ctx.count("sqlglot_error:" + names[k])
            break
        except Exception as e:
            ctx.violation(f"{sigprefix}internal-exception:{names[k]}:{type(e).__name__}", {"sql": text, "error": repr(e)[:300]}, case)
            failed = True
            break
        ctx.count("rule_applications")
        out_sql = tree.sql("duckdb")
        if k == 0:
            qualified = tree.copy()
        if out_sql != prev_sql:
            if prev_sql is not None:
                ctx.count("changed_by:" + names[k])
                changed_any = True
            prev_sql = out_sql
            if not compare("prefix:" + names[k], out_sql):
                failed = True
                break
    else:
        # the real optimize() must produce the same text as the rule-by-rule application
        try:
            full = O.optimize(text, schema=schema_dict, dialect="duckdb").sql("duckdb")
            ctx.count("full_optimize_calls")
            if full != prev_sql:
                compare("optimize()", full)
        except SqlglotError:
            ctx.count("full_optimize_sqlglot_error")
        except Exception as e:
            ctx.violation(f"{sigprefix}internal-exception:optimize():{type(e).__name__}", {"sql": text, "error": repr(e)[:300]}, case)
    # ---- each rule alone after qualify ------------------------------------------
    if qualified is not None and not failed:
        qsql = qualified.sql("duckdb")
        for k, rule in enumerate(RULES[1:], 1):
            t2 = qualified.copy()
            try:
                t2 = rule(t2, **rule_kwargs(rule, schema, "duckdb"))
            except SqlglotError:
                ctx.count("single_sqlglot_error:" + names[k])
                continue
            except Exception as e:
                ctx.violation(f"{sigprefix}internal-exception:single:{names[k]}:{type(e).__name__}", {"sql": text, "error": repr(e)[:300]}, case)
                continue
            s2 = t2.sql("duckdb")
            if s2 != qsql:
                ctx.count("single_changed_by:" + names[k])
                changed_any = True
                compare("single:" + names[k], s2)
    if changed_any:
        ctx.nt(text)
    if i % 211 == 0:
        ctx.sample({"sql": text, "optimized": prev_sql, "rows": base[1][:3]})
    for t in q.tags:
        ctx.count("tag:" + t.split(":")[0])


def gen_case(rng, feats=FEATS):
    tables = sqlgen.gen_schema(rng)
    data = sqlgen.gen_data(rng, tables)
    g = sqlgen.Gen(rng, tables, feats, prof="duckdb")
    return tables, data, g.query()


def check_case(ctx, q, tables, data):
    E = Engines(tables, data, want={"duckdb"})
    try:
        check_query(ctx, E, q, q.render("duckdb"), tables, data)
    finally:
        E.close()


def worker(ctx):
    for i in ctx.mine(SPEC[ctx.tier]["cases"]):
        if ctx.expired():
            break
        run_case(ctx, i)
    if ctx.shard == 0:
        run_probes(ctx)


def conclude(agg):
    c = agg["counters"]
    out = []
    if c["executions_compared"] < 3000:
        out.append(f"only {c['executions_compared']} optimized outputs were executed and compared")
    from sqlglot.optimizer import optimizer as O  # names only

    quiet = [r.__name__ for r in O.RULES[1:] if c["changed_by:" + r.__name__] + c["single_changed_by:" + r.__name__] < 10
             and r.__name__ not in ("quote_identifiers", "annotate_types")]
    if quiet:
        out.append("rules that changed fewer than 10 queries: " + ",".join(quiet))
    return out


def replay(rec):
    """re-runs the stored SQL text on the stored tables and data"""
    from ..runner import ReplayCtx

    ctx = ReplayCtx()
    case = rec["case"]
    tables = [sqlgen.Table(n, [tuple(c) for c in cols]) for n, cols in case["tables"]]
    data = {k: [tuple(r) for r in v] for k, v in case["data"].items()}

    class Q:
        order_total = " ORDER BY " in case["sql"]
        tags = set()

        def render(self, prof="duckdb", mode="min"):
            return case["sql"]
    _replay_case(ctx, Q(), tables, data, case)
    return ctx.report()


def _replay_case(ctx, q, tables, data, case):
    check_case(ctx, q, tables, data)

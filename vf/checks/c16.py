"""C16 - inferred types agree with the types the engine actually produces (DuckDB)."""
from __future__ import annotations

LEVEL_TEXT = ("Differential type monitoring: for generated scalar expressions over typed columns the type that annotate_types "
              "infers under the DuckDB dialect is mapped to a type class (boolean, integer, decimal/floating, text, date, "
              "timestamp, interval, null/unknown; table pinned in this module) and compared with the class of DuckDB's typeof() "
              "for the evaluated expression; an inferred integer must never be produced as a float or text; annotation must not "
              "change the SQL the tree generates. UNKNOWN is 'no claim' and is counted, never failed.")
LEVEL_TEXT += (' The same columns are also reached through derived tables, CTEs and UNION / EXCEPT / INTERSECT sources whose branches have different numeric types (DuckDB DESCRIBE as reference).')
LEVEL_TEXT += (' A deterministic family covers by-args constructs (COALESCE, CASE, IF, NULLIF, GREATEST, LEAST) mixing a string literal with each typed non-text column.')
LEVEL_NOTE = "DuckDB 1.5.5 typeof() over a one-row table is the reference; the class table is pinned here, not read from the library"
TECHNIQUE = "runtime monitoring: differential comparison of inferred type classes with the engine's typeof()"
RULE = ("seeded typed expressions (arithmetic incl. division, comparisons, CASE/COALESCE/NULLIF, casts, string functions, date parts, "
        "aggregates, windows) over columns of BOOLEAN, TINYINT..BIGINT, DOUBLE, DECIMAL, VARCHAR, DATE, TIMESTAMP; non-trivial = "
        "expression with an operator or function; distinct = distinct (operator/function skeleton with operand type classes)")
ASSUMPTIONS = ["only the type class is compared, never width or precision"]
SPEC = {
    "quick": {"shards": 16, "time_cap": 400, "exprs": 40000},
    "thorough": {"shards": 16, "time_cap": 1500, "exprs": 100000},
}

COLS = {"bo": "BOOLEAN", "ti": "TINYINT", "sm": "SMALLINT", "i": "INT", "bi": "BIGINT", "d": "DOUBLE", "de": "DECIMAL(10, 2)",
        "s": "VARCHAR", "da": "DATE", "ts": "TIMESTAMP"}
INTC, NUMC = ["ti", "sm", "i", "bi"], ["ti", "sm", "i", "bi", "d", "de"]

ENGINE_CLASS = [("BOOLEAN", "boolean"), ("TINYINT", "integer"), ("SMALLINT", "integer"), ("INTEGER", "integer"), ("BIGINT", "integer"),
                ("HUGEINT", "integer"), ("UTINYINT", "integer"), ("USMALLINT", "integer"), ("UINTEGER", "integer"), ("UBIGINT", "integer"),
                ("DOUBLE", "decimal"), ("FLOAT", "decimal"), ("DECIMAL", "decimal"), ("VARCHAR", "text"), ("DATE", "date"),
                ("TIMESTAMP", "timestamp"), ("INTERVAL", "interval"), ("TIME", "time"), ('"NULL"', "null"), ("NULL", "null")]
LIB_CLASS = {"BOOLEAN": "boolean", "TINYINT": "integer", "SMALLINT": "integer", "INT": "integer", "BIGINT": "integer", "INT128": "integer",
             "UTINYINT": "integer", "USMALLINT": "integer", "UINT": "integer", "UBIGINT": "integer", "INT256": "integer", "MEDIUMINT": "integer",
             "DOUBLE": "decimal", "FLOAT": "decimal", "DECIMAL": "decimal", "BIGDECIMAL": "decimal", "DECIMAL32": "decimal", "DECIMAL64": "decimal",
             "VARCHAR": "text", "TEXT": "text", "CHAR": "text", "NVARCHAR": "text", "NCHAR": "text", "DATE": "date", "DATE32": "date",
             "TIMESTAMP": "timestamp", "TIMESTAMPTZ": "timestamp", "TIMESTAMPLTZ": "timestamp", "TIMESTAMPNTZ": "timestamp", "DATETIME": "timestamp",
             "TIMESTAMP_S": "timestamp", "TIMESTAMP_MS": "timestamp", "TIMESTAMP_NS": "timestamp", "INTERVAL": "interval", "TIME": "time",
             "NULL": "null", "UNKNOWN": "unknown"}


def engine_class(t):
    for prefix, c in ENGINE_CLASS:
        if t.upper().startswith(prefix):
            return c
    return "other:" + t


def num(rng, d, skel):
    r = rng.random()
    if d <= 0 or r < 0.3:
        c = rng.choice(NUMC)
        skel.append(COLS[c].split("(")[0])
        return c
    if r < 0.4:
        v = rng.choice(["1", "2", "7", "1.5", "2.0", "100000000000"])
        skel.append("lit:" + ("dec" if "." in v else "int"))
        return v
    if r < 0.7:
        op = rng.choice(["+", "-", "*", "/", "%"]) if rng.random() < 0.9 else "//"
        skel.append(op)
        return f"({num(rng, d - 1, skel)} {op} {num(rng, d - 1, skel)})"
    if r < 0.78:
        skel.append("COALESCE")
        return f"COALESCE({num(rng, d - 1, skel)}, {num(rng, d - 1, skel)})"
    if r < 0.84:
        skel.append("CASE")
        return f"CASE WHEN {boolean(rng, d - 1, skel)} THEN {num(rng, d - 1, skel)} ELSE {num(rng, d - 1, skel)} END"
    if r < 0.88:
        # NULLIF with operands of different type classes is a listed finding (probe): same-class operands here
        skel.append("NULLIF")
        c = rng.choice(NUMC)
        other = rng.choice(INTC if c in INTC else [x for x in NUMC if x not in INTC])
        skel.append(COLS[c].split("(")[0])
        return f"NULLIF({c}, {other})"
    if r < 0.92:
        fn = rng.choice(["ABS", "-"])
        skel.append(fn)
        return f"ABS({num(rng, d - 1, skel)})" if fn == "ABS" else f"-{num(rng, 0, skel)}"
    if r < 0.96:
        ty = rng.choice(["INT", "BIGINT", "DOUBLE", "DECIMAL(10, 2)", "SMALLINT"])
        skel.append("CAST:" + ty.split("(")[0])
        return f"CAST({num(rng, d - 1, skel)} AS {ty})"
    skel.append("LENGTH")
    return f"LENGTH({text(rng, d - 1, skel)})"


def text(rng, d, skel):
    r = rng.random()
    if d <= 0 or r < 0.4:
        skel.append("VARCHAR")
        return rng.choice(["s", "'x'", "s"])
    fn = rng.choice(["UPPER", "LOWER", "TRIM", "||", "CONCAT", "SUBSTRING", "COALESCE", "CAST", "REPLACE", "LEFT"])
    skel.append(fn)
    a = text(rng, d - 1, skel)
    if fn in ("UPPER", "LOWER", "TRIM"):
        return f"{fn}({a})"
    if fn == "||":
        return f"({a} || {text(rng, d - 1, skel)})"
    if fn == "CONCAT":
        return f"CONCAT({a}, {text(rng, d - 1, skel)})"
    if fn == "SUBSTRING":
        return f"SUBSTRING({a}, 1, 2)"
    if fn == "COALESCE":
        return f"COALESCE({a}, 'z')"
    if fn == "REPLACE":
        return f"REPLACE({a}, 'x', 'y')"
    if fn == "LEFT":
        return f"LEFT({a}, 1)"
    return f"CAST({num(rng, d - 1, skel)} AS VARCHAR)"


def boolean(rng, d, skel):
    r = rng.random()
    if d <= 0 or r < 0.2:
        skel.append("BOOLEAN")
        return "bo"
    if r < 0.3:
        # operands of different type classes: text against number, date against text
        op = rng.choice(["=", "<>", "<", "<=", ">", ">=", "IS DISTINCT FROM", "IS NOT DISTINCT FROM"])
        c = rng.choice(NUMC)
        shape = rng.choice(["col-lit", "lit-col", "text-col", "date-text"])
        skel.append(f"cmp-mixed:{shape}:{COLS[c].split('(')[0]}")
        if shape == "col-lit":
            return f"({c} {op} '3')"
        if shape == "lit-col":
            return f"('10' {op} {c})"
        if shape == "text-col":
            return f"(s {op} {c})"
        return f"(da {op} '2020-01-01')"
    if r < 0.55:
        op = rng.choice(["=", "<>", "<", "<=", ">", ">="])
        skel.append("cmp")
        return f"({num(rng, d - 1, skel)} {op} {num(rng, d - 1, skel)})"
    if r < 0.7:
        skel.append("AND/OR")
        return f"({boolean(rng, d - 1, skel)} {rng.choice(['AND', 'OR'])} {boolean(rng, d - 1, skel)})"
    if r < 0.78:
        skel.append("NOT")
        return f"NOT {boolean(rng, d - 1, skel)}"
    if r < 0.86:
        skel.append("IS NULL")
        return f"{num(rng, d - 1, skel)} IS NULL"
    if r < 0.93:
        skel.append("LIKE")
        return f"{text(rng, d - 1, skel)} LIKE 'x%'"
    skel.append("IN")
    return f"{num(rng, d - 1, skel)} IN (1, 2)"


def temporal(rng, skel):
    c = rng.choice(["da", "ts"])
    kind = rng.choice(["col", "year", "extract", "cast-date", "cast-ts", "trunc", "cmp", "current"])
    skel.append("temporal:" + kind + ":" + COLS[c])
    if kind == "col":
        return c
    if kind == "year":
        return f"{rng.choice(['YEAR', 'MONTH', 'DAY'])}({c})"
    if kind == "extract":
        return f"EXTRACT({rng.choice(['YEAR', 'MONTH', 'DAY'])} FROM {c})"
    if kind == "cast-date":
        return f"CAST({c} AS DATE)"
    if kind == "cast-ts":
        return f"CAST({c} AS TIMESTAMP)"
    if kind == "trunc":
        return f"DATE_TRUNC('month', {c})"
    if kind == "cmp":
        return f"({c} > CAST('2020-01-01' AS DATE))"
    return "CURRENT_DATE"


def aggregate(rng, skel):
    fn = rng.choice(["SUM", "AVG", "MIN", "MAX", "COUNT", "COUNT(*)"])
    c = rng.choice(NUMC)
    over = rng.random() < 0.4
    skel.append(f"agg:{fn}:{COLS[c].split('(')[0]}:{'over' if over else 'plain'}")
    e = "COUNT(*)" if fn == "COUNT(*)" else f"{fn}({c})"
    if over:
        e += rng.choice([" OVER ()", " OVER (PARTITION BY i)", " OVER (ORDER BY i)"])
    return e, not over


# listed findings: constructs excluded from the main workload and kept alive by probes
PROBES = [
    ("probe/timestamp-minus-timestamp", "ts - ts"),
    ("probe/date-minus-date", "da - da"),
    ("probe/date-plus-interval", "da + INTERVAL 1 DAY"),
    ("probe/ceil-of-double", "CEIL(d)"),
    ("probe/nullif-of-integer-and-double", "NULLIF(i, d)"),
]


NUM_ORDER = ["ti", "sm", "i", "bi", "de", "d"]


def make_source(rng):
    """-> (kind, with_clause, from_clause): the same column names as table t, reached through a derived table, a CTE or a
    set operation whose right branch supplies other (often wider) numeric columns under the left branch's names"""
    cols = list(COLS)
    kind = rng.choice(["derived", "derived-star", "cte", "setop:UNION ALL", "setop:UNION", "setop:EXCEPT", "setop:INTERSECT",
                       "setop:UNION ALL", "setop:EXCEPT", "setop:INTERSECT"])
    if kind == "derived":
        return kind, "", f"(SELECT {', '.join(cols)} FROM t) AS t"
    if kind == "derived-star":
        return kind, "", "(SELECT * FROM t) AS t"
    if kind == "cte":
        return kind, f"WITH c AS (SELECT {', '.join(cols)} FROM t) ", "c AS t"
    op = kind.split(":")[1]
    perm = NUM_ORDER[:]
    rng.shuffle(perm)
    right = [perm[NUM_ORDER.index(c)] if c in NUM_ORDER else c for c in cols]
    body = f"SELECT {', '.join(cols)} FROM t {op} SELECT {', '.join(right)} FROM t"
    if rng.random() < 0.3:
        return kind + ":cte", f"WITH c AS ({body}) ", "c AS t"
    return kind, "", f"({body}) AS t"


def infer(sql_expr, grouped=False, source=None):
    import sqlglot
    from sqlglot.optimizer.annotate_types import annotate_types
    from sqlglot.optimizer.qualify import qualify

    schema = {"t": COLS}
    w, f = (source[1], source[2]) if source else ("", "t")
    tree = sqlglot.parse_one(f"{w}SELECT {sql_expr} AS r FROM {f}", read="duckdb")
    q = qualify(tree, schema=schema, dialect="duckdb")
    before = q.sql(dialect="duckdb")
    a = annotate_types(q, schema=schema, dialect="duckdb")
    after = a.sql(dialect="duckdb")
    ty = a.selects[0].type
    return (ty.this.name if ty is not None else "UNKNOWN"), before, after


_CON = None


def engine_type(sql_expr, source=None):
    global _CON
    if _CON is None:
        import duckdb

        _CON = duckdb.connect(config={"threads": 1})
        _CON.execute("CREATE TABLE t (" + ", ".join(f"{c} {ty}" for c, ty in COLS.items()) + ")")
        _CON.execute("INSERT INTO t VALUES (TRUE, 1, 2, 3, 4, 1.5, 2.25, 'xy', DATE '2020-02-03', TIMESTAMP '2020-02-03 04:05:06')")
    try:
        if source:
            # DESCRIBE: the source may be empty (EXCEPT / INTERSECT), the column type is still defined
            return _CON.execute(f"DESCRIBE {source[1]}SELECT {sql_expr} AS r FROM {source[2]}").fetchall()[0][1]
        return _CON.execute(f"SELECT typeof(r) FROM (SELECT {sql_expr} AS r FROM t)").fetchall()[0][0]
    except Exception as e:
        return None


def check(ctx, expr, skel, sigbase=None):
    from sqlglot.errors import SqlglotError

    et = engine_type(expr)
    if et is None:
        ctx.count("engine_rejected")
        return
    case = {"expr": expr}
    try:
        lt, before, after = infer(expr)
    except SqlglotError:
        ctx.count("sqlglot_error")
        return
    except Exception as e:
        ctx.violation(f"internal-exception:{type(e).__name__}", {"expr": expr, "error": repr(e)[:200]}, case)
        return
    ctx.count("evaluations")
    if before != after:
        ctx.violation("annotation-changed-the-sql", {"expr": expr, "before": before, "after": after}, case)
    lc = LIB_CLASS.get(lt, "other:" + lt)
    ec = engine_class(et)
    if lc == "unknown":
        ctx.count("inferred_unknown(no claim)")
        return
    ctx.count("type_classes_compared")
    ctx.nt("|".join(skel))
    if lc != ec and not (lc == "null" or ec == "null"):
        top = skel[0] if skel else "?"
        ctx.violation(sigbase or f"class-differs:{top}:inferred={lc}:engine={ec}", {"expr": expr, "inferred": lt, "engine": et, "skeleton": skel[:8]}, case)
        return False
    return True


def check_source(ctx, expr, skel, source):
    """the same expression over the same column names reached through a derived table / CTE / set operation. Reported only
    when the expression is fine over the base table (so that one mechanism is not reported under two names)."""
    from sqlglot.errors import SqlglotError

    et = engine_type(expr, source)
    if et is None:
        ctx.count("engine_rejected")
        return
    case = {"expr": expr, "source": list(source)}
    try:
        lt, before, after = infer(expr, source=source)
    except SqlglotError:
        ctx.count("sqlglot_error")
        return
    except Exception as e:
        ctx.violation(f"internal-exception:{type(e).__name__}", {"expr": expr, "source": source[2], "error": repr(e)[:200]}, case)
        return
    ctx.count("evaluations")
    ctx.count("source_variants_compared")
    kind = source[0].split(":")[0] + (":" + source[0].split(":")[1] if source[0].startswith("setop") else "")
    if before != after:
        ctx.violation("annotation-changed-the-sql", {"expr": expr, "before": before, "after": after}, case)
    lc, ec = LIB_CLASS.get(lt, "other:" + lt), engine_class(et)
    if lc == "unknown":
        ctx.count("inferred_unknown(no claim)")
        return
    ctx.nt("|".join([kind] + skel))
    if lc != ec and not (lc == "null" or ec == "null"):
        ctx.violation(f"class-differs-through-source:{kind}:inferred={lc}:engine={ec}",
                      {"expr": expr, "with": source[1], "from": source[2], "inferred": lt, "engine": et, "skeleton": skel[:8]}, case)


def worker(ctx):
    for i in ctx.mine(SPEC[ctx.tier]["exprs"]):
        if ctx.expired():
            break
        rng = ctx.case_rng(i)
        skel = []
        r = rng.random()
        if r < 0.45:
            e = num(rng, rng.randint(1, 3), skel)
        elif r < 0.6:
            e = boolean(rng, rng.randint(1, 3), skel)
        elif r < 0.75:
            e = text(rng, rng.randint(1, 3), skel)
        elif r < 0.87:
            e = temporal(rng, skel)
        else:
            e, _ = aggregate(rng, skel)
        ok = check(ctx, e, skel)
        if ok and i % 3 == 0 and r < 0.87:
            src = make_source(rng)
            if src[0].startswith("setop"):
                # the columns change type here (the branches are unified), so "fine over the base table" says nothing about
                # an operator applied to them: only the columns themselves are compared
                for c in COLS:
                    check_source(ctx, c, [COLS[c].split("(")[0]], src)
            else:
                check_source(ctx, e, skel, src)
        if i % 997 == 0:
            ctx.sample({"expr": e, "engine_typeof": engine_type(e)})
    if ctx.shard == 0:
        # by-args constructs (one result type from several operands) whose operands are a typed non-text column and a string
        # literal in either position: the engine converts the literal to the column's type
        shapes = ["COALESCE({c}, {l})", "COALESCE({l}, {c})", "CASE WHEN bo THEN {c} ELSE {l} END", "CASE WHEN bo THEN {l} ELSE {c} END",
                  "NULLIF({c}, {l})", "GREATEST({c}, {l})", "LEAST({l}, {c})", "IF(bo, {l}, {c})", "COALESCE({c}, {l}, {c})",
                  "CASE WHEN bo THEN {c} WHEN NOT bo THEN {l} END", "COALESCE(NULL, {c}, {l})"]
        for c in NUMC + ["da", "ts"]:
            lit = "'5'" if c in NUMC else "'2020-01-01'"
            for sh in shapes:
                ctx.count("byargs_string_literal_cases")
                check(ctx, sh.format(c=c, l=lit), ["byargs-strlit", sh.split("(")[0].split(" ")[0], COLS[c].split("(")[0]])
        for key, e in PROBES:
            ctx.count("probes")
            check(ctx, e, ["probe"], sigbase=key)


def conclude(agg):
    c = agg["counters"]
    need = 1500 if agg["tier"] == "quick" else 15000
    if c["type_classes_compared"] < need:
        return [f"only {c['type_classes_compared']} type classes compared (minimum {need})"]
    return []

"""C07 - formatting and generator options never change the meaning of the SQL."""
from __future__ import annotations

from ..gen import stmts
from ..oracle import canon

LEVEL_TEXT = ("Option-product monitoring: every generated tree (with comments attached at many positions) is written in each "
              "dialect with sampled vectors of pretty/pad/indent/max_text_width/leading_comma/comments/identify/"
              "normalize_functions; each output must parse back in that dialect to the tree of the default output up to "
              "comments, identifier quoting flags and function-name case (independent canonical form), must not contain "
              "the line-break sentinel, and with comments=False must not contain any comment text.")
LEVEL_TEXT += (" Besides the core grammar and the fixed corpus, every dialect's harvested statements (string constants of the repository's dialect test modules, used as vocabulary only) are run in their own dialect.")
LEVEL_NOTE = "the default single-line output must itself re-parse (otherwise the pair is C01's subject and is skipped)"
TECHNIQUE = "runtime monitoring: re-parse oracle over the generator-option product"
RULE = ("core-grammar statements with injected comments x all dialects x sampled option vectors (always the all-defaults "
        "pretty vector plus random ones); non-trivial = tree with >= 6 nodes; distinct = distinct (default output, dialect, options)")
ASSUMPTIONS = ["comments may move or be dropped under pretty printing (the property allows 'up to comments')"]
SPEC = {
    "quick": {"shards": 16, "time_cap": 400, "statements": 900, "vectors": 5, "corpus_stride": 1},
    "thorough": {"shards": 16, "time_cap": 1500, "statements": 12000, "vectors": 12, "corpus_all_dialects": True},
}
SENTINEL = "__SQLGLOT__LB__"
SKIP = [
    ({"tsql", "fabric"}, lambda s, kind: "IF NOT EXISTS" in s.upper() and s.upper().startswith("CREATE")),
    ({"athena", "databricks", "hive", "materialize", "spark", "spark2"}, lambda s, kind: kind == "create-table" and "UNIQUE (" in s),
    ({"singlestore"}, lambda s, kind: "CAST(NOT " in s),
]


def add_comments(rng, sql, n):
    toks = stmts.split_tokens(sql)
    marks = []
    word = lambda t: t[:1].isalpha() or t[:1] == "_"
    for j in range(n):
        pos = rng.randint(1, len(toks))
        # never between two words: that may split a multi-word keyword (PRIMARY KEY, GROUP BY, NOT NULL ...),
        # which changes what the statement means to the parser (listed finding, see PROBES)
        if pos < len(toks) and word(toks[pos - 1]) and word(toks[pos]) and toks[pos - 1].upper() not in _SAFE_AFTER:
            continue
        m = f"cmt{rng.randint(100, 999)}x{j}"
        toks.insert(pos, f"/* {m} */")
        marks.append(m)
    return stmts.join_tokens(toks), marks


_SAFE_AFTER = {"SELECT", "FROM", "WHERE", "AND", "OR", "ON", "SET", "HAVING", "THEN", "ELSE", "WHEN", "BY", "AS", "DISTINCT"}


def canon_noquote(n):
    """canonical form with the `quoted` flag of identifiers erased"""
    c = canon.canon(n)

    def strip(x):
        if isinstance(x, tuple):
            if len(x) == 2 and x[0] == "identifier" and isinstance(x[1], tuple):
                return ("identifier", tuple(strip(i) for i in x[1] if not (isinstance(i, tuple) and i and i[0] == "quoted")))
            return tuple(strip(i) for i in x)
        return x

    return strip(c)


def option_vectors(rng, k):
    yield {"pretty": True}
    for _ in range(k):
        o = {}
        if rng.random() < 0.75:
            o["pretty"] = True
            if rng.random() < 0.5:
                o["pad"] = rng.randint(0, 4)
            if rng.random() < 0.5:
                o["indent"] = rng.randint(0, 4)
            if rng.random() < 0.6:
                o["max_text_width"] = rng.choice([1, 20, 80])
            if rng.random() < 0.4:
                o["leading_comma"] = True
        if rng.random() < 0.35:
            o["comments"] = False
        if rng.random() < 0.5:
            o["identify"] = rng.choice([True, "safe", False])
        if rng.random() < 0.4:
            o["normalize_functions"] = rng.choice(["upper", "lower", False])
        if o:
            yield o


PROBES = [
    ("probe/tsql:pretty-reformats-statement-embedded-in-string", "tsql",
     "CREATE TABLE IF NOT EXISTS n9 (c0 VARCHAR(10) PRIMARY KEY, c1 SMALLINT)", {"pretty": True}),
    ("probe/comment-between-words-of-a-keyword-changes-the-tree", "",
     "CREATE TABLE n8 (c0 INT, PRIMARY /* c */ KEY (c0))", {"comments": False}),
    ("probe/sentinel-text-inside-a-string-literal-is-rewritten", "",
     "SELECT '__SQLGLOT__LB__' AS a, b FROM t", {"pretty": True}),
]


def run_probes(ctx):
    import sqlglot

    for key, d, s, opts in PROBES:
        ctx.count("probes")
        try:
            tree = sqlglot.parse_one(s, read=d)
            t0 = sqlglot.parse_one(tree.sql(dialect=d), read=d)
            out = tree.sql(dialect=d, **opts)
            t = sqlglot.parse_one(out, read=d)
            if canon_noquote(t) != canon_noquote(t0):
                ctx.violation(key, {"sql": s, "options": opts, "out": out[:300]})
        except Exception as e:
            ctx.violation(key, {"sql": s, "error": repr(e)[:200]})


def check_tree(ctx, rng, s, kind, marks, d, nvec, plain=None):
    import sqlglot
    from sqlglot.errors import SqlglotError

    dn = d or "base"
    from sqlglot import exp

    for ds, pred in SKIP:
        if dn in ds and pred(plain or s, kind):
            return
    try:
        tree = sqlglot.parse_one(s, read=d)
        if isinstance(tree, exp.Command):
            ctx.count("opaque_command_skipped")
            return
        base = tree.sql(dialect=d)
        t0 = sqlglot.parse_one(base, read=d)
        if isinstance(t0, exp.Command):
            # the default output itself is only readable as an opaque command in this dialect (C01's subject)
            ctx.count("default_output_reparses_as_command(skipped)")
            return
    except SqlglotError:
        ctx.count("not_parsed_or_not_reparsed(C01)")
        return
    except Exception:
        ctx.count("internal(C05)")
        return
    c0 = canon_noquote(t0)
    nn = sum(1 for _ in tree.walk())
    for opts in option_vectors(rng, nvec):
        ctx.count("evaluations")
        case = {"sql": s, "dialect": dn, "options": opts}
        okey = ",".join(f"{k}={v}" for k, v in sorted(opts.items()))
        try:
            out = tree.sql(dialect=d, **opts)
        except SqlglotError:
            ctx.count("generate_sqlglot_error")
            continue
        except Exception as e:
            ctx.violation(f"internal-exception:{dn}:{type(e).__name__}", {"sql": s, "options": opts, "error": repr(e)[:200]}, case)
            continue
        if SENTINEL in out:
            ctx.violation(f"sentinel-in-output:{dn}", {"sql": s, "options": opts, "out": out[:300]}, case)
        if opts.get("comments") is False:
            left = [m for m in marks if m in out]
            ctx.count("comments_off_checked")
            if left:
                ctx.violation(f"comment-text-with-comments-off:{dn}", {"sql": s, "options": opts, "out": out[:300], "marks": left}, case)
        try:
            t = sqlglot.parse_one(out, read=d)
        except SqlglotError as e:
            blame = _which(opts)
            for k, v in sorted(opts.items()):
                # a single option of the vector, if it reproduces alone
                try:
                    sqlglot.parse_one(tree.sql(dialect=d, **{k: v}), read=d)
                except SqlglotError:
                    blame = k
                    break
                except Exception:
                    pass
            ctx.violation(f"output-does-not-parse:{dn}:{type(tree).__name__}:{blame}",
                          {"sql": s, "options": opts, "out": out[:400], "error": str(e)[:200]}, case)
            continue
        ctx.count("reparses_compared")
        if nn >= 6:
            ctx.nt([base, dn, okey])
        if canon_noquote(t) != c0:
            # name the smallest responsible option set: a single option of the vector if it reproduces alone
            blame = _which(opts)
            for k, v in sorted(opts.items()):
                try:
                    o1 = tree.sql(dialect=d, **{k: v})
                    if canon_noquote(sqlglot.parse_one(o1, read=d)) != c0:
                        blame = k
                        break
                except Exception:
                    blame = k
                    break
            where = _first_difference(c0, canon_noquote(t))
            # COLLATE <name> is read as a column but COLLATE "<name>" as an identifier in every dialect: one mechanism
            scope = "any-dialect" if (blame == "identify" and where == "column->identifier") else dn
            ctx.violation(f"tree-differs:{scope}:{type(tree).__name__}:{blame}:{where}",
                          {"sql": s, "options": opts, "default": base[:300], "out": out[:400]}, case)


def _first_difference(a, b, path="root"):
    """class name of the innermost node at which two canonical forms first differ"""
    if isinstance(a, tuple) and isinstance(b, tuple) and len(a) == 2 and len(b) == 2 and isinstance(a[0], str) and isinstance(b[0], str) \
            and isinstance(a[1], tuple) and isinstance(b[1], tuple):
        if a[0] != b[0]:
            return f"{a[0]}->{b[0]}"
        if len(a[1]) != len(b[1]):
            return a[0]
        for x, y in zip(a[1], b[1]):
            if x != y:
                if isinstance(x, tuple) and isinstance(y, tuple) and len(x) == 2 and len(y) == 2 and x[0] == y[0]:
                    return _first_difference(x[1], y[1], a[0]) if isinstance(x[1], tuple) and x[1] and isinstance(x[1][0], str) and isinstance(x[1][1] if len(x[1]) > 1 else None, tuple) else a[0]
                return a[0]
        return a[0]
    return path


def _which(opts):
    return "+".join(sorted(k for k in opts))


def worker(ctx):
    from ..common import dialect_names

    dialects = dialect_names()
    spec = SPEC[ctx.tier]
    for i in ctx.mine(spec["statements"]):
        if ctx.expired():
            break
        rng = ctx.case_rng(i)
        s, kind = stmts.gen_statement(rng)
        s2, marks = add_comments(rng, s, rng.randint(0, 4))
        ctx.count("statements")
        if i % 301 == 0:
            ctx.sample({"statement": s2, "options_example": {"pretty": True, "max_text_width": 20, "leading_comma": True}})
        for d in dialects:
            check_tree(ctx, rng, s2, kind, marks, d, spec["vectors"], plain=s)
    # the fixed corpus brings node types the core grammar does not have (table properties, locks, pivots, COPY options ...)
    import os
    from ..common import VERIF_DIR

    with open(os.path.join(VERIF_DIR, "vf", "corpus", "identity.sql"), encoding="utf-8") as f:
        corpus = [l.rstrip("\n") for l in f if l.strip()]
    stride = spec.get("corpus_stride", 1)
    import random as _r

    for li in ctx.mine(len(corpus)):
        if ctx.expired():
            break
        if li % stride:
            continue
        rng = ctx.case_rng(9_000_000 + li)
        s = corpus[li]
        ctx.count("corpus_statements")
        # seed-independent choice of dialects (so that the list of findings reachable here is fixed); thorough: all of them
        ds = dialects if spec.get("corpus_all_dialects") else [""] + [dialects[1 + (li * 7 + j * 11) % (len(dialects) - 1)] for j in range(3)]
        import random as _r

        vrng = _r.Random(f"C07:corpus:{li}")
        for d in ds:
            check_tree(ctx, vrng, s, "corpus", [], d, spec["vectors"], plain=s)
    # dialect-specific statements (harvested vocabulary, gen/harvest.py), each in its own dialect; option vectors are drawn
    # from a seed-independent stream so that the set of findings reachable here is fixed
    from ..gen.harvest import harvested

    hstride = spec.get("harvest_stride", 1)
    k = 0
    for di, d in enumerate(x for x in dialects if x):
        texts, found = harvested(d)
        for ti, s in enumerate(texts):
            k += 1
            if k % ctx.nshards != ctx.shard or (ti + di) % hstride:
                continue
            if ctx.expired():
                break
            ctx.count("harvested_statements")
            check_tree(ctx, _r.Random(f"C07:harvest:{d}:{ti}"), s, "harvested", [], d, spec["vectors"], plain=s)
    if ctx.shard == 0:
        run_probes(ctx)


def conclude(agg):
    c = agg["counters"]
    need = 10000 if agg["tier"] == "quick" else 100000
    out = []
    if c["reparses_compared"] < need:
        out.append(f"only {c['reparses_compared']} option outputs were re-parsed and compared (minimum {need})")
    if c["comments_off_checked"] < 500:
        out.append("comments=False was checked fewer than 500 times")
    return out


def replay(rec):
    import random
    from ..runner import ReplayCtx

    ctx = ReplayCtx()
    case = rec["case"]
    d = None if case.get("dialect") in (None, "base") else case["dialect"]
    import sqlglot

    tree = sqlglot.parse_one(case["sql"], read=d)
    t0 = sqlglot.parse_one(tree.sql(dialect=d), read=d)
    out = tree.sql(dialect=d, **case.get("options", {}))
    print("options:", case.get("options"))
    print("output :", out[:600])
    same = canon_noquote(sqlglot.parse_one(out, read=d)) == canon_noquote(t0)
    print("re-parses to the tree of the default output:", same)
    return 0 if same else 1

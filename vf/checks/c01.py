"""C01 - same-dialect round trip is a fixpoint in every dialect."""
from __future__ import annotations

from ..gen import stmts, sqlgen
from ..oracle import canon

LEVEL_TEXT = ("Round-trip monitoring: for generated core-grammar statements and every registered dialect in which the "
              "statement parses, s1 = generate(parse(s)) must parse again and generate(parse(s1)) must equal s1 byte for "
              "byte, through both parse_one().sql() and transpile(); in the base dialect the two trees must be equal "
              "(library == and an independent canonical form); time-format strings built from each dialect's own "
              "vocabulary must be fixpoints and, when made of canonical tokens, come back unchanged.")
LEVEL_TEXT += (' Joins without criteria are part of the statement grammar.')
LEVEL_NOTE = "oracle is string equality / own canonical form; statements come from an own generator, not from sqlglot"
TECHNIQUE = "runtime monitoring: round-trip fixpoint oracle over generated statements x all dialects"
RULE = ("seeded core-grammar generator (typed SELECTs with joins/subqueries/CTEs/set ops/windows, expression statements "
        "with casts and literal forms, INSERT/UPDATE/DELETE/CREATE/DROP/ALTER) x base + all registered dialects; "
        "non-trivial = round trip of a statement with >= 4 AST nodes that parsed; distinct = distinct (s1, dialect)")
ASSUMPTIONS = ["a statement that does not parse in a dialect at IMMEDIATE level is outside the property for that dialect"]
SPEC = {
    "quick": {"shards": 16, "time_cap": 400, "statements": 2400, "formats": 40},
    "thorough": {"shards": 16, "time_cap": 1500, "statements": 40000, "formats": 400},
}


# Triggers of listed findings, excluded from the main workload per dialect and kept alive by PROBES.
SKIP = [
    ({"tsql", "fabric"}, lambda s, kind: kind == "create-table" and "IF NOT EXISTS" in s),
    ({"athena", "databricks", "hive", "materialize", "spark", "spark2"}, lambda s, kind: kind == "create-table" and "UNIQUE (" in s),
    ({"singlestore"}, lambda s, kind: "CAST(NOT " in s),
]
PROBES = [
    ("probe/tsql:create-table-if-not-exists-not-idempotent", "tsql", "CREATE TABLE IF NOT EXISTS n3 (c0 TEXT, c1 DECIMAL(10, 2))"),
    ("probe/fabric:create-table-if-not-exists-not-idempotent", "fabric", "CREATE TABLE IF NOT EXISTS n3 (c0 TEXT, c1 DECIMAL(10, 2))"),
    ("probe/spark:create-table-with-unique-constraint-generates-nothing", "spark", "CREATE TABLE n9 (c0 DATE, UNIQUE (c0))"),
    ("probe/hive:create-table-with-unique-constraint-generates-nothing", "hive", "CREATE TABLE n9 (c0 DATE, UNIQUE (c0))"),
    ("probe/materialize:create-table-with-unique-constraint-generates-nothing", "materialize", "CREATE TABLE n9 (c0 DATE, UNIQUE (c0))"),
    ("probe/singlestore:cast-of-not-loses-parentheses", "singlestore", "SELECT CAST(NOT b1 IN (1, 0) AS DOUBLE) AS e0 FROM t1"),
]


def run_probes(ctx):
    import sqlglot
    from sqlglot.errors import SqlglotError

    for key, d, s in PROBES:
        ctx.count("probes")
        try:
            tree = sqlglot.parse_one(s, read=d)
            k = roundtrip_kind(tree, d)
            if k:
                ctx.violation(key, {"sql": s, "s1": tree.sql(dialect=d), "kind": k})
        except SqlglotError as e:
            ctx.violation(key, {"sql": s, "error": str(e)[:200]})


def _localise(tree, d, fails):
    """smallest expression / query sub-tree (generated and parsed as a tree of its own) for which the round
    trip still fails; statements parts that are not expressions (column definitions, ...) are not candidates"""
    from sqlglot import exp

    best = None
    for u in tree.walk():
        if u is tree or not isinstance(u, (exp.Condition, exp.Query)) or isinstance(u, (exp.Identifier, exp.Literal)):
            continue
        try:
            n = sum(1 for _ in u.walk())
            if best is not None and n >= best[0]:
                continue
            if fails(u.copy()):
                best = (n, type(u).__name__)
        except Exception:
            continue
    return best[1] if best else type(tree).__name__


def roundtrip_kind(tree, d):
    """-> None | 'reparse' | 'nonidempotent' for a tree generated and parsed back in d"""
    import sqlglot
    from sqlglot.errors import SqlglotError

    s1 = tree.sql(dialect=d)
    try:
        t1 = sqlglot.parse_one(s1, read=d)
    except SqlglotError:
        return "reparse"
    s2 = t1.sql(dialect=d)
    if s2 != s1:
        return "nonidempotent"
    return None


def check_statement(ctx, s, d, kind):
    import sqlglot
    from sqlglot.errors import SqlglotError

    dn = d or "base"
    for ds, pred in SKIP:
        if dn in ds and pred(s, kind):
            ctx.count("skipped_listed_trigger")
            return
    try:
        tree = sqlglot.parse_one(s, read=d)
    except SqlglotError:
        ctx.count("not_parsed:" + dn)
        return
    except Exception:
        ctx.count("internal_on_parse(C05)")
        return
    ctx.count("roundtrips")
    ctx.count("evaluations")
    ctx.count("parsed:" + dn)
    case = {"sql": s, "dialect": dn}
    try:
        s1 = tree.sql(dialect=d)
    except SqlglotError:
        ctx.count("generate_sqlglot_error")
        return
    except Exception:
        ctx.count("internal_on_generate(C05)")
        return
    nnodes = sum(1 for _ in tree.walk())
    if nnodes >= 4:
        ctx.nt([s1, dn])

    def report(kind_, extra):
        def fails(u):
            return roundtrip_kind(u, d) == kind_
        where = _localise(tree, d, fails) if kind_ in ("reparse", "nonidempotent") else type(tree).__name__
        ctx.violation(f"{kind_}:{dn}:{type(tree).__name__}:{where}", {"sql": s, "s1": s1, **extra}, case)

    try:
        t1 = sqlglot.parse_one(s1, read=d)
    except SqlglotError as e:
        report("reparse", {"error": str(e)[:200]})
        return
    except Exception as e:
        report("reparse", {"error": repr(e)[:200]})
        return
    s2 = t1.sql(dialect=d)
    if s2 != s1:
        report("nonidempotent", {"s2": s2})
        return
    # the same fixpoint with pretty printing (the quantifier includes generator options; C07 covers the rest)
    try:
        p1 = t1.sql(dialect=d, pretty=True)     # from the normalised tree, like s1 -> s2
        p2 = sqlglot.parse_one(p1, read=d).sql(dialect=d, pretty=True)
        ctx.count("pretty_roundtrips")
        if p2 != p1:
            ctx.violation(f"nonidempotent-pretty:{dn}:{type(tree).__name__}", {"sql": s, "s1": p1, "s2": p2}, case)
    except SqlglotError as e:
        ctx.violation(f"reparse-pretty:{dn}:{type(tree).__name__}", {"sql": s, "error": str(e)[:200]}, case)
    try:
        via = sqlglot.transpile(s, read=d, write=d)[0]
        if via != s1:
            ctx.violation(f"entrypoints-differ:{dn}", {"sql": s, "parse_one.sql": s1, "transpile": via}, case)
    except SqlglotError:
        ctx.count("transpile_sqlglot_error")
    if not d:
        eq_lib = tree == t1
        eq_can = canon.canon_equal(tree, t1)
        ctx.count("base_tree_comparisons")
        if not eq_lib or not eq_can:
            ctx.violation(f"tree-neq:base:{type(tree).__name__}", {"sql": s, "s1": s1, "lib_eq": eq_lib, "canon_eq": eq_can}, case)


# ---------------------------------------------------------------------------------
# time formats
# ---------------------------------------------------------------------------------

SEPS = ["-", "/", ":", " ", ".", ","]
import json as _json, os as _os
from ..common import VERIF_DIR as _VD
with open(_os.path.join(_VD, "vf", "spec", "time_vocab.json")) as _f:
    TIME_VOCAB = _json.load(_f)


def time_format_cases(rng, d, n):
    """yield (sql, fmt, canonical?) for dialect d using its own vocabulary"""
    from sqlglot import exp
    from sqlglot.dialects.dialect import Dialect
    from sqlglot.time import format_time

    D = Dialect.get_or_raise(d)
    # the format vocabulary is pinned (vf/spec/time_vocab.json, taken from the unchanged tree): reading it from the
    # library at run time would follow a change that drops or alters an entry
    mapping = dict(TIME_VOCAB[d or "base"]["time_mapping"])
    inverse = dict(TIME_VOCAB[d or "base"]["inverse"])
    native_tokens = sorted(mapping) if mapping else ["%Y", "%m", "%d", "%H", "%M", "%S", "%y", "%j", "%b"]
    templates = []
    for cls in (exp.TimeToStr, exp.StrToTime, exp.StrToDate):
        try:
            t = cls(this=exp.column("x"), format=exp.Literal.string("%Y")).sql(dialect=d)
        except Exception:
            continue
        nat = inverse.get("%Y", "%Y") if mapping else "%Y"
        lit = "'" + nat + "'"
        if t.count(lit) == 1:
            templates.append((cls.__name__, t, lit))
    if not templates:
        return

    def canonical(tok):
        if not mapping:
            return True
        fwd = mapping.get(tok)
        return fwd is not None and inverse.get(fwd) == tok

    for _ in range(n):
        k = rng.randint(1, 4)
        toks = [rng.choice(native_tokens) for _ in range(k)]
        fmt = toks[0]
        for t in toks[1:]:
            fmt += rng.choice(SEPS) + t
        if "'" in fmt or "\\" in fmt or len(fmt) < 2:
            continue  # one-letter formats are standard-format shorthands in the .NET style dialects
        name, tpl, lit = rng.choice(templates)
        # (b) applies to dialects with a vocabulary of their own, and to the base dialect (strftime unchanged)
        decide_b = bool(mapping) or not d
        yield f"SELECT {tpl.replace(lit, chr(39) + fmt + chr(39))}", fmt, decide_b and all(canonical(t) for t in toks), name


def check_format(ctx, sql, fmt, canonical_fmt, d, fname):
    import sqlglot
    from sqlglot.errors import SqlglotError

    dn = d or "base"
    try:
        tree = sqlglot.parse_one(sql, read=d)
        s1 = tree.sql(dialect=d)
    except SqlglotError:
        ctx.count("format_not_parsed")
        return
    ctx.count("format_roundtrips")
    case = {"sql": sql, "dialect": dn, "format": fmt}
    try:
        s2 = sqlglot.parse_one(s1, read=d).sql(dialect=d)
    except SqlglotError as e:
        ctx.violation(f"format-reparse:{dn}:{fname}", {"sql": sql, "s1": s1, "error": str(e)[:200]}, case)
        return
    if s2 != s1:
        ctx.violation(f"format-nonidempotent:{dn}:{fname}", {"sql": sql, "s1": s1, "s2": s2}, case)
        return
    if canonical_fmt and ("'" + fmt + "'") not in s1:
        ctx.violation(f"format-changed:{dn}:{fname}", {"sql": sql, "s1": s1, "format": fmt}, case)
    ctx.nt([sql, dn])


def worker(ctx):
    from ..common import dialect_names

    dialects = dialect_names()
    spec = SPEC[ctx.tier]
    for i in ctx.mine(spec["statements"]):
        if ctx.expired():
            break
        rng = ctx.case_rng(i)
        s, kind = stmts.gen_statement(rng)
        ctx.count("statements")
        ctx.count("kind:" + kind)
        if i % 601 == 0:
            ctx.sample({"statement": s, "kind": kind})
        for d in dialects:
            check_statement(ctx, s, d, kind)
    # time formats: every shard takes its share of dialects
    for j, d in enumerate(dialects):
        if j % ctx.nshards != ctx.shard:
            continue
        rng = ctx.case_rng(10_000_000 + j)
        for sql, fmt, canon_fmt, fname in time_format_cases(rng, d, spec["formats"]):
            ctx.count("evaluations")
            check_format(ctx, sql, fmt, canon_fmt, d, fname)
            if fmt and rng.random() < 0.02:
                ctx.sample({"dialect": d or "base", "format_sql": sql})
    if ctx.shard == 0:
        run_probes(ctx)


def conclude(agg):
    c = agg["counters"]
    out = []
    need = 20000 if agg["tier"] == "quick" else 100000
    if c["roundtrips"] < need:
        out.append(f"only {c['roundtrips']} round trips parsed (minimum {need})")
    nd = sum(1 for k in c if k.startswith("parsed:") and c[k] >= 50)
    if nd < 30:
        out.append(f"only {nd} dialects parsed at least 50 statements")
    if c["format_roundtrips"] < 200:
        out.append(f"only {c['format_roundtrips']} time-format round trips")
    return out


def coverage_extra(agg):
    c = agg["counters"]
    return {"parsed_per_dialect": {k[7:]: c[k] for k in sorted(c) if k.startswith("parsed:")}}


def replay(rec):
    from ..runner import ReplayCtx

    ctx = ReplayCtx()
    case = rec["case"]
    d = None if case.get("dialect") in (None, "base") else case["dialect"]
    if "format" in case:
        check_format(ctx, case["sql"], case["format"], True, d, "replay")
    else:
        check_statement(ctx, case["sql"], d, "replay")
    return ctx.report()

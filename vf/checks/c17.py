"""C17 - column lineage reports exactly the source columns feeding a result column."""
from __future__ import annotations

import re

from ..gen import sqlgen

LEVEL_TEXT = ("Ground-truth monitoring: the query generator records, for every projected expression, the set of base (table, "
              "column) pairs it is built from (through derived tables, CTEs, set operations, stars and scalar subqueries; WHERE / "
              "ON predicates are not flow). The leaves of lineage() per output column must equal that set, for the query as "
              "written, with every derived table hoisted into a CTE, with those CTEs supplied through sources=, with table "
              "aliases renamed, and through both lineage(column, ...) and lineage(None, ...) (shared cache).")
LEVEL_TEXT += (' NATURAL JOINs with the merged column used un-qualified are part of the workload.')
LEVEL_NOTE = "the expected sets come from the generator's own derivation, never from sqlglot; leaves are read as (leaf.source.name, column part of leaf.name)"
TECHNIQUE = "runtime monitoring: generator-recorded provenance as ground truth for lineage leaves, across equivalent presentations"
RULE = ("seeded nested queries (derived tables, multiply referenced CTEs, set operations, stars, scalar subqueries, windows) x "
        "4 presentations x both entry points; non-trivial = truth set with >= 2 columns or passing through >= 2 scopes; "
        "distinct = distinct (query text, output column)")
ASSUMPTIONS = ["columns used only in WHERE / ON / GROUP BY / HAVING do not count as flowing into an output column"]
SPEC = {
    "quick": {"shards": 16, "time_cap": 400, "queries": 5000},
    "thorough": {"shards": 16, "time_cap": 1500, "queries": 25000},
}
FEATS = dict(window=True, any_sub=False, setops_all=False, stars="base-only", cte_cols=True, unqualified=0.4, star_dup_order=False,
             max_depth=3, using=False, scalar_setop=True, nested_with=True, natural_join=0.2, derived_setop=0.1)


def leaves(node):
    """set of (table, column) over the leaves of a lineage graph whose source is a base table"""
    from sqlglot import exp

    out = set()
    for n in node.walk():
        if n.downstream:
            continue
        src = n.source
        if isinstance(src, exp.Table):
            out.add((src.name.lower(), n.name.rsplit(".", 1)[-1].strip('"').lower()))
        # a leaf whose source is a query is an expression without any column (a constant): no base column to report
    return out


def rename_aliases(sql):
    return re.sub(r"\bx(\d+)\b", lambda m: "y" + m.group(1), sql)   # x<N> are only ever table aliases


def gen_case(rng, feats=FEATS):
    tables = sqlgen.gen_schema(rng)
    g = sqlgen.Gen(rng, tables, feats)
    return tables, {}, g.query()


def check_query(ctx, q, tables, i=1):
    from sqlglot.errors import SqlglotError
    from sqlglot.lineage import lineage

    schema = sqlgen.sqlglot_schema(tables)
    text = q.render("portable")
    names = [n for n, _, _ in q.out]
    if len(set(names)) != len(names):
        ctx.count("duplicate_output_names_skipped")
        return
    truth = {n: {(t.lower(), c.lower()) for t, c in prov} for n, _, prov in q.out}
    presentations = [("as-written", text, None), ("aliases-renamed", rename_aliases(text), None)]
    if "cte:shadows-outer" not in q.tags:
        # hoisting every WITH entry into one flat list is only meaning-preserving when no name is re-defined
        main, ctes = sqlgen.hoist_derived(q)
        as_cte = ("WITH " + ", ".join(f"{n} AS ({s})" for n, s in ctes) + " " + main) if ctes else main
        presentations.append(("hoisted-to-ctes", as_cte, None))
        if ctes:
            presentations.append(("via-sources", main, {n: s for n, s in ctes}))
    case = {"sql": text}
    for pname, sql, sources in presentations:
        try:
            allnodes = lineage(None, sql, schema=schema, sources=sources)
        except SqlglotError as e:
            # every generated query is valid over the schema (both engines run it): failing to resolve it is a wrong answer
            ctx.count(f"lineage_sqlglot_error:{pname}")
            ctx.violation(f"lineage-raises:{pname}:{type(e).__name__}", {"sql": sql, "error": str(e)[:200], "tags": sorted(q.tags)}, case)
            continue
        except RecursionError:
            ctx.count("recursion_error")
            continue
        except Exception as e:
            ctx.violation(f"internal-exception:{pname}:{type(e).__name__}", {"sql": sql, "error": repr(e)[:200]}, case)
            continue
        for col in names:
            want = truth[col]
            for entry in ("all-columns", "single-column"):
                try:
                    node = allnodes[col] if entry == "all-columns" else lineage(col, sql, schema=schema, sources=sources)
                except KeyError:
                    ctx.violation(f"missing-output-column:{pname}", {"sql": sql, "column": col, "have": list(allnodes)[:10]}, case)
                    break
                except SqlglotError:
                    ctx.count("lineage_sqlglot_error_single")
                    break
                got = leaves(node)
                ctx.count("evaluations")
                ctx.count("leaf_sets_compared")
                if len(want) >= 2 or {"derived", "cte", "cte:ref"} & q.tags:
                    ctx.nt([text, col])
                if got != want:
                    kind = "missing" if want - got and not got - want else "extra" if got - want and not want - got else "different"
                    ctx.violation(f"leaves-{kind}:{pname}:{entry}", {"sql": sql, "column": col, "lineage": sorted(got), "truth": sorted(want),
                                                                     "tags": sorted(q.tags)}, {**case, "presentation": sql})
                    break
    if i % 201 == 0:
        ctx.sample({"sql": text, "truth": {k: sorted(v) for k, v in truth.items()}})


def check_case(ctx, q, tables, data):
    check_query(ctx, q, tables)


def worker(ctx):
    for i in ctx.mine(SPEC[ctx.tier]["queries"]):
        if ctx.expired():
            break
        rng = ctx.case_rng(i)
        tables, _, q = gen_case(rng)
        check_query(ctx, q, tables, i)


def conclude(agg):
    c = agg["counters"]
    need = 1500 if agg["tier"] == "quick" else 15000
    if c["leaf_sets_compared"] < need:
        return [f"only {c['leaf_sets_compared']} leaf sets compared (minimum {need})"]
    return []

"""C06 - simplification and normal forms preserve SQL three-valued logic exactly."""
from __future__ import annotations

import functools
import inspect
import itertools

LEVEL_TEXT = ("Rewrite-step monitoring: every Simplifier rule (discovered through the __wrapped__ attribute its decorator leaves) "
              "and the module-level steps it calls by name are wrapped at run time; each (step, before, after) pair and each "
              "end-to-end pair of simplify / normalize is decided by DuckDB over the full cross product of a domain with NULL "
              "(integers {NULL,-1,0,1,2,3} x booleans {NULL,TRUE,FALSE}; NULL, TRUE, FALSE are three distinct results). "
              "normalize results must satisfy an independent CNF/DNF shape predicate or be the unchanged input.")
LEVEL_NOTE = "DuckDB 1.5.5 evaluates both sides of every pair; steps are local rewrites, so pairs are compared standalone"
TECHNIQUE = "runtime monitoring: rule observer (wrapped rewrite steps) + exhaustive three-valued evaluation of each observed pair"
RULE = ("seeded typed boolean/integer expressions over 2 int and 2 bool columns (connectors, comparisons, BETWEEN, IS [NOT] NULL, "
        "IN lists, COALESCE, CASE, + - *, unary minus, NULL literals) plus targeted families (comparison pairs against constants "
        "with every operator and offset, complements, absorption, nested NOT), untyped and typed, with the opt-in rules on and off; "
        "non-trivial = at least one step changed the expression; distinct = distinct input expression")
ASSUMPTIONS = ["each column's domain is small but contains NULL and every order-relevant value around the constants used"]
SPEC = {
    "quick": {"shards": 16, "time_cap": 400, "exprs": 12000},
    "thorough": {"shards": 16, "time_cap": 1500, "exprs": 60000},
}
INTS = [None, -1, 0, 1, 2, 3]
BOOLS = [None, True, False]


# ---------------------------------------------------------------------------------
# expression generator (own text)
# ---------------------------------------------------------------------------------

def gi(rng, d):
    r = rng.random()
    if d <= 0 or r < 0.35:
        return rng.choice(["a", "b", "a", "b", "0", "1", "2", "3", "-1", "NULL"])
    if r < 0.6:
        return f"({gi(rng, d - 1)} {rng.choice('+-*')} {gi(rng, d - 1)})"
    if r < 0.72:
        return f"COALESCE({gi(rng, d - 1)}, {gi(rng, d - 1)})"
    if r < 0.82:
        return f"CASE WHEN {gb(rng, d - 1)} THEN {gi(rng, d - 1)} ELSE {gi(rng, d - 1)} END"
    if r < 0.88:
        return f"-{gi(rng, 0)}"
    return gi(rng, d - 1)


def gb(rng, d):
    r = rng.random()
    if d <= 0 or r < 0.2:
        return rng.choice(["p", "q", "p", "q", "TRUE", "FALSE", "NULL", "a = 1", "a = b", "b = 2", "a < b", "a > 0", "b <> 1"])
    if r < 0.42:
        return f"({gb(rng, d - 1)} AND {gb(rng, d - 1)})"
    if r < 0.58:
        return f"({gb(rng, d - 1)} OR {gb(rng, d - 1)})"
    if r < 0.68:
        return f"NOT {gb(rng, d - 1)}"
    if r < 0.8:
        return f"{gi(rng, d - 1)} {rng.choice(['=', '<>', '<', '<=', '>', '>='])} {gi(rng, d - 1)}"
    if r < 0.85:
        return f"{gi(rng, d - 1)} IS {rng.choice(['', 'NOT '])}NULL"
    if r < 0.89:
        return f"{gi(rng, d - 1)} {rng.choice(['', 'NOT '])}BETWEEN {gi(rng, 0)} AND {gi(rng, 0)}"
    if r < 0.93:
        return f"{gi(rng, d - 1)} {rng.choice(['', 'NOT '])}IN ({gi(rng, 0)}, {gi(rng, 0)})"
    if r < 0.96:
        return f"CASE WHEN {gb(rng, d - 1)} THEN {gb(rng, d - 1)} ELSE {gb(rng, d - 1)} END"
    return f"COALESCE({gi(rng, d - 1)}, {rng.choice(['0', '1', '2'])}) {rng.choice(['=', '<>', '<', '>'])} {rng.choice(['0', '1', '2'])}"


def nonnull_gated(rng):
    """shapes of the rules that are gated on the 'nonnull' annotation (complements, absorption, elimination):
    A, B drawn from never-NULL predicates (IS [NOT] NULL) and nullable ones, in every role and operand order"""
    never_null = ["a IS NULL", "b IS NOT NULL", "p IS NULL", "q IS NOT NULL", "(a IS NULL OR b IS NULL)"]
    nullable = ["p", "q", "a = 1", "a < b", "b > 0", "NOT p"]
    pick = lambda: rng.choice(never_null) if rng.random() < 0.5 else rng.choice(nullable)
    A, B = pick(), pick()
    shapes = [
        "({A} AND {B}) OR ({A} AND NOT {B})", "({A} AND NOT {B}) OR ({A} AND {B})", "({B} AND {A}) OR (NOT {B} AND {A})",
        "({A} OR {B}) AND ({A} OR NOT {B})", "({A} OR NOT {B}) AND ({A} OR {B})", "({B} OR {A}) AND (NOT {B} OR {A})",
        "{A} AND NOT {A}", "{A} OR NOT {A}", "NOT {A} AND {A}", "{A} AND ({A} OR {B})", "{A} OR ({A} AND {B})",
        "{A} AND (NOT {A} OR {B})", "{A} OR (NOT {A} AND {B})", "NOT {A} AND ({A} OR {B})", "NOT {A} OR ({A} AND {B})",
        "({A} AND {B}) OR NOT {A}", "({A} OR {B}) AND NOT {B}",
    ]
    e = rng.choice(shapes).format(A=A, B=B)
    r = rng.random()
    if r < 0.2:
        e = f"NOT ({e})"
    elif r < 0.35:
        e = f"{rng.choice(['p', 'q', 'a = 1'])} {rng.choice(['AND', 'OR'])} ({e})"
    return e


def targeted(rng):
    """families that sit on the rules"""
    if rng.random() < 0.3:
        return nonnull_gated(rng)
    ops = ["=", "<>", "<", "<=", ">", ">="]
    c = rng.choice(["a", "b"])
    k = rng.choice([0, 1, 2])
    r = rng.random()
    if r < 0.3:
        conn = rng.choice(["AND", "OR"])
        e = f"{c} {rng.choice(ops)} {k} {conn} {c} {rng.choice(ops)} {k + rng.choice([-1, 0, 1])}"
        if rng.random() < 0.3:
            e = f"{k} {rng.choice(ops)} {c} {conn} {c} {rng.choice(ops)} {k + rng.choice([-1, 0, 1])}"
    elif r < 0.45:
        x = gb(rng, 1)
        e = f"({x}) {rng.choice(['AND', 'OR'])} NOT ({x})"
    elif r < 0.6:
        x, y = gb(rng, 1), gb(rng, 1)
        e = rng.choice([f"({x}) AND (({x}) OR ({y}))", f"({x}) OR (({x}) AND ({y}))", f"({x}) AND (NOT ({x}) OR ({y}))",
                        f"(({x}) AND ({y})) OR (({x}) AND NOT ({y}))"])
    elif r < 0.7:
        e = "NOT " * rng.randint(2, 3) + f"({gb(rng, 1)})"
    elif r < 0.8:
        e = f"{k} {rng.choice(ops)} {c} + {rng.choice([0, 1, 2])}" if rng.random() < 0.5 else f"{c} - {rng.choice([0, 1])} {rng.choice(ops)} {k}"
    elif r < 0.9:
        e = f"CASE WHEN {gb(rng, 1)} THEN {gb(rng, 1)} WHEN {gb(rng, 0)} THEN {gb(rng, 0)} ELSE {gb(rng, 0)} END"
    else:
        e = f"COALESCE({c}, {k}) {rng.choice(ops)} {rng.choice([0, 1, 2])}" if rng.random() < 0.5 else f"{rng.choice([0, 1, 2])} {rng.choice(ops)} COALESCE({c}, {k})"
    if rng.random() < 0.3:
        e = f"NOT ({e})"
    return e


# ---------------------------------------------------------------------------------
# observer
# ---------------------------------------------------------------------------------

class Observer:
    def __init__(self):
        self.pairs = []          # (step, before_sql, after_sql)
        self.calls = {}
        self.installed = []

    def _sql(self, e):
        try:
            return e.sql(dialect="duckdb")
        except Exception:
            return None

    def wrap_unary(self, name, fn):
        obs = self

        @functools.wraps(fn)
        def w(*args, **kwargs):
            expression = args[1] if len(args) > 1 and hasattr(args[0], "dialect") and not hasattr(args[0], "args") else args[0]
            before = obs._sql(expression)
            res = fn(*args, **kwargs)
            obs.calls[name] = obs.calls.get(name, 0) + 1
            if res is not None and before is not None:
                after = obs._sql(res)
                if after is not None and after != before:
                    obs.pairs.append((name, before, after))
            return res
        return w

    def wrap_pairwise(self, name, fn):
        obs = self

        @functools.wraps(fn)
        def w(self_, expression, left, right, *args, **kwargs):
            from sqlglot import exp

            lb, rb = obs._sql(left), obs._sql(right)
            res = fn(self_, expression, left, right, *args, **kwargs)
            obs.calls[name] = obs.calls.get(name, 0) + 1
            # None and the connector itself both mean "this pair does not combine"
            if res is not None and res is not expression and lb is not None and rb is not None:
                op = "OR" if isinstance(expression, exp.Or) else "AND"
                before = f"({lb}) {op} ({rb})"
                after = obs._sql(res)
                if after is not None:
                    obs.pairs.append((name, before, after))
            return res
        return w

    def install(self):
        from sqlglot.optimizer import simplify as S
        from sqlglot.optimizer import normalize as N

        for name, attr in list(vars(S.Simplifier).items()):
            if callable(attr) and hasattr(attr, "__wrapped__") and name != "_flat_simplify":
                params = list(inspect.signature(attr).parameters)
                if params[:4] == ["self", "expression", "left", "right"]:
                    setattr(S.Simplifier, name, self.wrap_pairwise(name, attr))
                else:
                    setattr(S.Simplifier, name, self.wrap_unary(name, attr))
                self.installed.append(name)
        for name in ("flatten", "simplify_parens", "propagate_constants"):
            if hasattr(S, name):
                setattr(S, name, self.wrap_unary(name, getattr(S, name)))
                self.installed.append(name)
        if hasattr(N, "distributive_law"):
            N.distributive_law = self.wrap_unary("distributive_law", N.distributive_law)
            self.installed.append("distributive_law")
        return self.installed


# ---------------------------------------------------------------------------------
# three-valued evaluation
# ---------------------------------------------------------------------------------

class Table3VL:
    def __init__(self):
        import duckdb

        self.con = duckdb.connect(config={"threads": 1})
        self.con.execute("CREATE TABLE t (a INTEGER, b INTEGER, p BOOLEAN, q BOOLEAN)")
        rows = list(itertools.product(INTS, INTS, BOOLS, BOOLS))
        vals = ", ".join("(" + ", ".join("NULL" if v is None else str(v).upper() if isinstance(v, bool) else str(v) for v in r) + ")" for r in rows)
        self.con.execute(f"INSERT INTO t VALUES {vals}")
        self.cache = {}

    def differ(self, before, after):
        """-> ('same',) | ('differ', n_rows, witness rows [(a,b,p,q,before,after)], kinds) | ('rejected', msg)"""
        key = (before, after)
        if key in self.cache:
            return self.cache[key]
        try:
            rows = self.con.execute(
                f"SELECT a, b, p, q, ({before}) AS x, ({after}) AS y FROM t WHERE ({before}) IS DISTINCT FROM ({after}) LIMIT 400"
            ).fetchall()
        except Exception as e:
            res = ("rejected", str(e)[:120])
            self.cache[key] = res
            return res
        if not rows:
            res = ("same",)
        else:
            kinds = sorted({(_tv(r[4]), _tv(r[5])) for r in rows})
            res = ("differ", len(rows), [list(r) for r in rows[:3]], kinds)
        self.cache[key] = res
        return res


def _tv(v):
    if v is None:
        return "NULL"
    if v is True:
        return "TRUE"
    if v is False:
        return "FALSE"
    return "value"


# ---------------------------------------------------------------------------------
# normal-form predicate (independent)
# ---------------------------------------------------------------------------------

def in_normal_form(tree, dnf, not_is_atom=False):
    """CNF: no AND below an OR; DNF: no OR below an AND (through parentheses and NOT; not crossing subqueries)."""
    from sqlglot import exp

    outer, inner = (exp.And, exp.Or) if dnf else (exp.Or, exp.And)

    def has_inner_below(node, below_outer):
        if not isinstance(node, (exp.Connector, exp.Paren, exp.Not)) or (not_is_atom and isinstance(node, exp.Not)):
            return False   # anything that is not a connector, a parenthesis or NOT is an atom (CASE, functions, subqueries ...)
        b = below_outer
        if isinstance(node, outer):
            b = True
        elif isinstance(node, inner) and below_outer:
            return True
        for c in node.iter_expressions():
            if has_inner_below(c, b):
                return True
        return False

    return not has_inner_below(tree, False)


# ---------------------------------------------------------------------------------

import re

_CMP = re.compile(r"(?<![\w.])([abpq])\s*(=|<>|<=|>=|<|>)\s*(-?\d+)(?![\w.])|(?<![\w.])(-?\d+)\s*(=|<>|<=|>=|<|>)\s*([abpq])(?![\w.])")
_FLIP = {"<": ">", ">": "<", "<=": ">=", ">=": "<=", "=": "=", "<>": "<>"}


def const_comparisons(text):
    """[(column, op, constant)] with the column on the left"""
    out = []
    for m in _CMP.finditer(text):
        if m.group(1):
            out.append((m.group(1), m.group(2), int(m.group(3))))
        else:
            out.append((m.group(6), _FLIP[m.group(5)], int(m.group(4))))
    return out


def pair_shape(before):
    """first pair of comparisons of one column against constants: (op1, op2, sign(k2-k1)) sorted, or None"""
    cs = const_comparisons(before)
    for i in range(len(cs)):
        for j in range(i + 1, len(cs)):
            if cs[i][0] == cs[j][0]:
                (o1, k1), (o2, k2) = sorted([(cs[i][1], cs[i][2]), (cs[j][1], cs[j][2])])
                rel = "eq" if k1 == k2 else "lt" if k1 < k2 else "gt"
                return f"{o1},{o2},{rel}"
    return None


def signature(step, before, after, res):
    """behaviour-level signature of a differing pair, computed from the witness"""
    kinds = set(map(tuple, res[3]))
    shape = _shape(res)
    ps = pair_shape(before)
    if step in ("_simplify_comparison", "simplify_connectors") and ps:
        conn = "OR" if re.search(r"\bOR\b", before) and not re.search(r"\bAND\b", before) else "AND" if not re.search(r"\bOR\b", before) else "MIXED"
        if kinds == {("NULL", "FALSE")} and "FALSE" in after.upper():
            return "comparison-pair:contradiction-folded-to-FALSE(NULL-lost)"
        if kinds == {("NULL", "TRUE")} and "TRUE" in after.upper():
            return "comparison-pair:tautology-folded-to-TRUE(NULL-lost)"
        return f"comparison-pair:{conn}:{ps}:{shape}"
    if step == "simplify_conditionals" and re.search(r"\bWHEN TRUE THEN\b", before) and not re.match(r"\s*CASE WHEN TRUE\b", before):
        return "simplify_conditionals:constant-true-branch-that-is-not-first"
    return f"step:{step}:{shape}"


def check_expr(ctx, obs, T, text, i, opts, typed, dialect):
    import sqlglot
    from sqlglot import exp
    from sqlglot.errors import SqlglotError
    from sqlglot.optimizer.simplify import simplify
    from sqlglot.optimizer.qualify import qualify
    from sqlglot.optimizer.annotate_types import annotate_types

    case = {"expr": text, "options": opts, "typed": typed, "dialect": dialect}
    obs.pairs = []
    try:
        if typed:
            tree = sqlglot.parse_one(f"SELECT {text} AS r FROM t", read="duckdb")
            tree = qualify(tree, schema={"t": {"a": "INT", "b": "INT", "p": "BOOLEAN", "q": "BOOLEAN"}}, dialect="duckdb",
                           quote_identifiers=False)
            tree = annotate_types(tree, schema={"t": {"a": "INT", "b": "INT", "p": "BOOLEAN", "q": "BOOLEAN"}}, dialect="duckdb")
            out = simplify(tree, dialect=dialect, **opts)
            after = out.selects[0].this.sql(dialect="duckdb") if isinstance(out.selects[0], exp.Alias) else out.selects[0].sql(dialect="duckdb")
            after = after.replace("t.", "")
        else:
            tree = sqlglot.parse_one(text, read="duckdb")
            out = simplify(tree, dialect=dialect, **opts)
            after = out.sql(dialect="duckdb")
    except SqlglotError:
        ctx.count("sqlglot_error")
        return
    except Exception as e:
        ctx.violation(f"internal-exception:simplify:{type(e).__name__}", {"expr": text, "error": repr(e)[:200], "options": opts}, case)
        return
    ctx.count("evaluations")
    ctx.count("simplify_calls")
    pairs = list(obs.pairs)
    optkey = "+".join(sorted(k for k, v in opts.items() if v)) or "default"
    bad_steps = []
    for step, b, a in pairs:
        b2, a2 = b.replace("t.", ""), a.replace("t.", "")
        res = T.differ(b2, a2)
        ctx.count("step_pairs_decided")
        ctx.count("step:" + step)
        if res[0] == "rejected":
            ctx.count("step_pair_rejected_by_engine")
        elif res[0] == "differ":
            bad_steps.append((step, b2, a2, res))
    if pairs:
        ctx.nt(text)
    for step, b, a, res in bad_steps[:3]:
        ctx.violation(signature(step, b, a, res), {"expr": text, "step": step, "before": b, "after": a, "rows_differing": res[1],
                                                   "witness": res[2], "kinds": res[3], "options": opts}, case)
    res = T.differ(text, after)
    ctx.count("end_to_end_pairs_decided")
    if res[0] == "rejected":
        ctx.count("end_to_end_rejected_by_engine")
    elif res[0] == "differ" and not bad_steps:
        # no observed step explains it: report end to end
        ctx.violation(f"end-to-end:simplify:{_shape(res)}:{optkey}", {"expr": text, "simplified": after, "witness": res[2], "kinds": res[3]}, case)
    if i % 501 == 0:
        ctx.sample({"expr": text, "simplified": after, "steps": [p[0] for p in pairs][:8]})


def _shape(res):
    kinds = sorted(set(map(tuple, res[3])))
    if all(k[0] == "NULL" or k[1] == "NULL" for k in kinds):
        return "null-rows-only"
    return "non-null-rows"


def check_normalize(ctx, obs, T, text, i):
    import sqlglot
    from sqlglot.errors import SqlglotError
    from sqlglot.optimizer.normalize import normalize

    # default budget, and small budgets (the rule gives up half way and must then hand back the input unchanged)
    for dnf, budget in ((False, None), (True, None), (False, (2, 3, 4, 6, 8, 16)[i % 6]), (True, (2, 3, 4, 6, 8, 16)[(i + 1) % 6])):
        case = {"expr": text, "dnf": dnf, "max_distance": budget}
        obs.pairs = []
        try:
            tree = sqlglot.parse_one(text, read="duckdb")
            src = tree.sql(dialect="duckdb")
            out = normalize(tree.copy(), dnf=dnf) if budget is None else normalize(tree.copy(), dnf=dnf, max_distance=budget)
            after = out.sql(dialect="duckdb")
        except SqlglotError:
            continue
        except Exception as e:
            ctx.violation(f"internal-exception:normalize:{type(e).__name__}", {"expr": text, "error": repr(e)[:200]}, case)
            continue
        ctx.count("evaluations")
        ctx.count("normalize_calls")
        for step, b, a in obs.pairs:
            res = T.differ(b, a)
            ctx.count("step_pairs_decided")
            ctx.count("step:" + step)
            if res[0] == "differ":
                ctx.violation(f"step:{step}:{_shape(res)}:normalize", {"expr": text, "before": b, "after": a, "witness": res[2]}, case)
        res = T.differ(text, after)
        if res[0] == "differ":
            ctx.violation(f"end-to-end:normalize:{_shape(res)}:{'dnf' if dnf else 'cnf'}", {"expr": text, "normalized": after, "witness": res[2]}, case)
        ctx.count("normal_form_checks")
        if after != src and not in_normal_form(out, dnf):
            # listed finding: a negated connector is opaque to the distributive law. Decided on the witness:
            # the result *is* in normal form once every NOT(...) is read as an atom
            if in_normal_form(out, dnf, not_is_atom=True):
                ctx.violation("normalize:negated-connector-left-inside-the-result", {"expr": text, "normalized": after, "dnf": dnf}, case)
            else:
                ctx.violation(f"normalize:not-in-{'dnf' if dnf else 'cnf'}-and-not-unchanged", {"expr": text, "normalized": after}, case)


def worker(ctx):
    obs = Observer()
    installed = obs.install()
    ctx.extra["wrapped_steps"] = installed
    T = Table3VL()
    flag_dialects = ["duckdb", "duckdb", "postgres", "mysql", "snowflake", "bigquery", "tsql"]
    for i in ctx.mine(SPEC[ctx.tier]["exprs"]):
        if ctx.expired():
            break
        rng = ctx.case_rng(i)
        text = targeted(rng) if rng.random() < 0.35 else gb(rng, rng.randint(1, 4)) if rng.random() < 0.8 else gi(rng, rng.randint(1, 3))
        pre = T.differ(text, text)
        if pre[0] == "rejected":
            ctx.count("generated_expression_rejected_by_engine")
            continue
        typed = rng.random() < 0.55
        opts = {}
        r = rng.random()
        if r < 0.15:
            opts = {"constant_propagation": True}
        elif r < 0.3:
            opts = {"coalesce_simplification": True}
        check_expr(ctx, obs, T, text, i, opts, typed, rng.choice(flag_dialects))
        if i % 3 == 0:
            check_normalize(ctx, obs, T, text, i)
    # deep connector trees over a few atoms, normalised under small budgets: the distance estimate lets them in and a
    # nested distribution step gives up later - the input must then come back unchanged
    atoms = ["p", "q", "a = 1", "b = 2", "a < b", "p IS NULL", "a IN (1, 2)", "NOT q"]

    def conn(rng, d):
        if d <= 0 or rng.random() < 0.15:
            return rng.choice(atoms)
        op = rng.choice([" AND ", " OR "])
        return "(" + op.join(conn(rng, d - 1) for _ in range(rng.choice([2, 2, 3]))) + ")"

    for i in ctx.mine(SPEC[ctx.tier]["exprs"] // 4):
        if ctx.expired():
            break
        rng = ctx.case_rng(7_000_000 + i)
        text = conn(rng, rng.randint(3, 4))[1:-1] if True else ""
        if T.differ(text, text)[0] == "rejected":
            continue
        ctx.count("deep_connector_trees")
        check_normalize(ctx, obs, T, text, i)
    ctx.extra["calls"] = dict(obs.calls)


def conclude(agg):
    c = agg["counters"]
    out = []
    need = 2000 if agg["tier"] == "quick" else 20000
    if c["simplify_calls"] < need:
        out.append(f"only {c['simplify_calls']} simplify calls observed (minimum {need})")
    seen = [k for k in c if k.startswith("step:") and c[k] >= 50]
    if len(seen) < 8:
        out.append(f"only {len(seen)} distinct rewrite steps were observed at least 50 times: {sorted(seen)}")
    if c["normal_form_checks"] < 500:
        out.append("fewer than 500 normal-form checks")
    return out


def coverage_extra(agg):
    ex = agg["extras"][0] if agg["extras"] else {}
    return {"wrapped_steps": ex.get("wrapped_steps"), "assignments_per_pair": len(INTS) ** 2 * len(BOOLS) ** 2}


def replay(rec):
    from ..runner import ReplayCtx

    ctx = ReplayCtx()
    obs = Observer()
    obs.install()
    case = rec["case"]
    if "dnf" in case:
        check_normalize(ctx, obs, Table3VL(), case["expr"], 1)
    else:
        check_expr(ctx, obs, Table3VL(), case["expr"], 1, case.get("options") or {}, case.get("typed", False), case.get("dialect") or "duckdb")
    return ctx.report()

"""C12 - serialisation and copying reproduce the tree exactly."""
from __future__ import annotations

import json
import pickle

from ..gen import stmts, sqlgen
from ..oracle import canon

LEVEL_TEXT = ("Round-trip monitoring of dump/load, dump->JSON text->load, pickle and copy() over trees parsed from generated "
              "core-grammar statements in every dialect, raw, qualified and type-annotated, plus synthetic nodes for every "
              "kind of arg value: the result must be equal (library == and independent canonical form), generate the same "
              "SQL in the source dialect and rotating others, and carry the same public types, comments and meta; "
              "json.dumps of a dump must succeed.")
LEVEL_TEXT += (' Harvested dialect-specific trees (raw and annotated) are included; the copy and the tree are also generated in place (copy=False) and compared.')
LEVEL_TEXT += (' Types are compared as text plus every truthy scalar argument (nullable, nested, kind, values ...); trees holding several types of one DType that differ in such an argument are part of the workload.')
LEVEL_NOTE = "compares public observables only (.type, .comments, .meta, .sql()); trees come from the real parsers/optimizer"
TECHNIQUE = "runtime monitoring: serialisation round-trip oracle over parser/optimizer-produced trees"
RULE = ("core-grammar statements (with injected comments) x all dialects x {raw, annotate_types, qualify+annotate_types} x "
        "{dump/load, json, pickle, copy}; non-trivial = tree with a typed node, comment or meta entry; distinct = distinct (sql, dialect, variant)")
ASSUMPTIONS = ["qualify/annotate_types failures (OptimizeError) remove the variant, not the case"]
SPEC = {
    "quick": {"shards": 16, "time_cap": 400, "statements": 1500},
    "thorough": {"shards": 16, "time_cap": 1500, "statements": 20000},
}


def type_key(n):
    """the node's type as text plus every truthy scalar argument of every node of the type (nullable, nested, kind, values, udt
    ...): flags the base dialect does not print are part of the type all the same (a falsy flag and an absent one are the same)"""
    ty = getattr(n, "type", None)
    if ty is None:
        return None
    from sqlglot import exp

    flags = []
    try:
        for sub in ty.walk(bfs=False):
            for k in sorted(sub.args):
                v = sub.args[k]
                if v and not isinstance(v, (exp.Expression, list)):
                    flags.append(f"{type(sub).__name__}.{k}={v!r}")
    except Exception:
        flags.append("unwalkable")
    return (canon.type_sql(n), tuple(flags))


def observables(t):
    """parallel-walk description of public state: (class, type sql, comments, meta) per node in DFS order"""
    out = []
    for n in t.walk(bfs=False):
        m = n._meta if getattr(n, "_meta", None) else None
        out.append((type(n).__name__, type_key(n), tuple(n.comments) if n.comments else (),
                    tuple(sorted((k, repr(v)) for k, v in m.items())) if m else ()))
    return out


def compare(ctx, route, orig, back, dialects, case, variant):
    sig = None
    detail = {}
    if back is None or type(back) is not type(orig):
        sig, detail = "type-differs", {"back": type(back).__name__}
    elif not (orig == back):
        sig = "lib-neq"
    elif not canon.canon_equal(orig, back):
        sig = "canon-neq"
    else:
        oa, ob = observables(orig), observables(back)
        if oa != ob:
            k = next((i for i, (x, y) in enumerate(zip(oa, ob)) if x != y), min(len(oa), len(ob)))
            what = "?"
            if k < len(oa) and k < len(ob):
                x, y = oa[k], ob[k]
                what = "type" if x[1] != y[1] else "comments" if x[2] != y[2] else "meta" if x[3] != y[3] else "class"
                detail = {"node": x[0], "orig": x, "back": y}
            sig = f"observable-differs:{what}:{detail.get('node')}"
        else:
            for d in dialects:
                try:
                    a = orig.sql(dialect=d)
                except Exception:
                    continue
                try:
                    b = back.sql(dialect=d)
                except Exception as e:
                    sig, detail = "sql-raises-after-roundtrip", {"dialect": d, "error": repr(e)[:200]}
                    break
                if a != b:
                    sig, detail = "sql-differs", {"dialect": d, "orig": a[:300], "back": b[:300]}
                    break
    if not sig and back is not None:
        # load() rebuilds through append/set: every child must record the parent, arg name and list index it is stored under
        probs = canon.check_links(back)
        if probs:
            sig, detail = f"links-after-roundtrip:{probs[0][0]}", {"problem": probs[0]}
    ctx.count("roundtrips_compared")
    if sig:
        ctx.violation(f"{route}:{variant}:{sig}", {"sql": case["sql"], "dialect": case["dialect"], **detail}, case)


def check_tree(ctx, t, dialects, case, variant, in_place=False):
    from sqlglot import exp
    from sqlglot.serde import dump, load

    # 1 dump/load
    try:
        d = dump(t)
    except Exception as e:
        ctx.violation(f"dump-raises:{variant}:{type(e).__name__}", {"sql": case["sql"], "error": repr(e)[:200]}, case)
        return
    try:
        compare(ctx, "load(dump)", t, load(d), dialects, case, variant)
    except Exception as e:
        ctx.violation(f"load-raises:{variant}:{type(e).__name__}", {"sql": case["sql"], "error": repr(e)[:200]}, case)
    # 2 through JSON text
    try:
        text = json.dumps(d)
    except Exception as e:
        metas = sorted({k for n in t.walk() if n._meta for k, v in n._meta.items() if not isinstance(v, (str, int, float, bool, type(None), list, dict))})
        ctx.violation(f"json.dumps-raises:{variant}:{type(e).__name__}:meta={','.join(metas) or '-'}",
                      {"sql": case["sql"], "dialect": case["dialect"], "error": repr(e)[:200]}, case)
        text = None
    if text is not None:
        try:
            compare(ctx, "json", t, load(json.loads(text)), dialects, case, variant)
        except Exception as e:
            ctx.violation(f"json-load-raises:{variant}:{type(e).__name__}", {"sql": case["sql"], "error": repr(e)[:200]}, case)
    # 3 pickle (of a tree whose hashes are cached, as they are after any comparison or set membership)
    try:
        hash(t)
        unp = pickle.loads(pickle.dumps(t))
        compare(ctx, "pickle", t, unp, dialects, case, variant)
        # the unpickled tree is a tree like any other: an edit below its root must be visible in == and in the hashes
        leaf = next((n for n in unp.walk() if n is not unp and isinstance(n, (exp.Literal, exp.Identifier)) and n.this != "zz9"), None)
        if leaf is not None:
            leaf.set("this", "zz9")
            ctx.count("edits_after_unpickling")
            stale = canon.check_hashes(unp)
            if stale:
                ctx.violation(f"pickle:{variant}:stale-hash-after-edit", {"sql": case["sql"], "problem": stale[0]}, case)
            elif unp == t:
                ctx.violation(f"pickle:{variant}:edited-tree-still-equal", {"sql": case["sql"]}, case)
    except Exception as e:
        ctx.violation(f"pickle-raises:{variant}:{type(e).__name__}", {"sql": case["sql"], "error": repr(e)[:200]}, case)
    # 4 copy
    try:
        c = t.copy()
        compare(ctx, "copy", t, c, dialects, case, variant)
        ids = {id(n) for n in t.walk()}
        if any(id(n) in ids for n in c.walk()):
            ctx.violation(f"copy-shares-node:{variant}", {"sql": case["sql"]}, case)
    except Exception as e:
        ctx.violation(f"copy-raises:{variant}:{type(e).__name__}", {"sql": case["sql"], "error": repr(e)[:200]}, case)
        return
    # 5 the copy and the tree itself must also agree when the generator works in place (copy=False, what transpile() does);
    #   last step, because it may modify `t`
    if in_place:
        from sqlglot.dialects.dialect import Dialect

        for d in dialects[:2]:
            try:
                gen = Dialect.get_or_raise(d)
                a = gen.generate(t.copy(), copy=False)
            except Exception:
                continue
            try:
                b = gen.generate(t, copy=False)
            except Exception as e:
                b = "raised " + type(e).__name__
            ctx.count("in_place_generations_compared")
            if a != b:
                ctx.violation(f"copy:{variant}:sql-differs-when-generated-in-place", {"sql": case["sql"], "dialect": d or "base", "copy": a[:300], "tree": b[:300]}, case)
            break


def synthetic(ctx):
    """nodes holding every kind of arg value"""
    from sqlglot import exp

    nodes = [
        exp.Ordered(this=exp.column("a"), desc=False, nulls_first=True),
        exp.Ordered(this=exp.column("a"), desc=None, nulls_first=False),
        exp.Literal.number(1), exp.Literal.string(""), exp.Literal.string("a'b\\n"),
        exp.DataType.build("DECIMAL(10, 2)"), exp.DataType.build("ARRAY<STRUCT<a INT, b ARRAY<TEXT>>>"),
        exp.Select(expressions=[], distinct=None), exp.Select(expressions=[exp.Star()], hint=None),
        exp.In(this=exp.column("x"), expressions=[]), exp.Tuple(expressions=[exp.Tuple(expressions=[])]),
        exp.Cast(this=exp.column("x"), to=exp.DataType.build("INT"), safe=False),
        exp.Anonymous(this="MyFunc", expressions=[exp.Literal.number(1), exp.null(), exp.true()]),
        exp.Interval(this=exp.Literal.string("1"), unit=exp.Var(this="DAY")),
        exp.Window(this=exp.Count(this=exp.Star()), partition_by=[exp.column("a")], order=None),
        exp.to_identifier("Mixed Case", quoted=True), exp.to_table("c.d.t"),
        exp.JSONExtract(this=exp.column("j"), expression=exp.Literal.string("$.a")),
    ]
    # every member of the type enumeration, as a bare type and as the type annotation of a node
    for member in exp.DType:
        nodes.append(exp.DataType(this=member))
        typed = exp.column("c")
        typed.type = exp.DataType(this=member)
        nodes.append(typed)
    nodes.append(exp.DataType.build("my_schema.my_type", udt=True))
    # one tree, several typed nodes that share the DType and differ in a flag or a parameter (both orders), set by hand and
    # as the parsers produce them
    for member in (exp.DType.INT, exp.DType.VARCHAR, exp.DType.ARRAY, exp.DType.TIMESTAMP):
        variants = [exp.DataType(this=member), exp.DataType(this=member, nullable=True), exp.DataType(this=member, nested=True),
                    exp.DataType(this=member, kind=exp.var("K")), exp.DataType(this=member, values=[exp.Literal.string("v")]),
                    exp.DataType(this=member, expressions=[exp.DataTypeParam(this=exp.Literal.number(3))])]
        for order in (variants, variants[::-1], variants[1:] + variants[:1]):
            cols = []
            for k, ty in enumerate(order):
                c = exp.column(f"c{k}")
                c.type = ty.copy()
                cols.append(c)
            nodes.append(exp.select(*cols).from_("t"))
    import sqlglot
    for d, q in (("clickhouse", "SELECT CAST(a AS Nullable(Int32)) AS x, CAST(b AS Int32) AS y, CAST(c AS Nullable(Int32)) AS z"),
                 ("clickhouse", "SELECT CAST(b AS Int32) AS y, CAST(a AS Nullable(Int32)) AS x, CAST(c AS LowCardinality(String)), CAST(d AS String)"),
                 ("bigquery", "SELECT CAST(a AS ARRAY<INT64>), CAST(b AS ARRAY<STRING>), CAST(c AS STRUCT<x INT64>), CAST(d AS STRUCT<y STRING>)"),
                 ("postgres", "SELECT CAST(a AS INT[]), CAST(b AS INT), CAST(c AS VARCHAR(3)), CAST(d AS VARCHAR), CAST(e AS TIMESTAMP(3)), CAST(f AS TIMESTAMP)"),
                 ("mysql", "SELECT CAST(a AS UNSIGNED), CAST(b AS SIGNED), CAST(c AS CHAR(3)), CAST(d AS CHAR)")):
        try:
            nodes.append(sqlglot.parse_one(q, read=d))
        except Exception:
            ctx.count("typed_statement_not_parsed")
    nodes.append(exp.Cast(this=exp.column("x"), to=exp.DataType.build("my_enum", udt=True)))
    for n in nodes:
        n.add_comments(["c1", "c 2"]) if len(nodes) % 2 else None
        n.meta["k"] = [1, "two", {"three": None}]
        ctx.count("evaluations")
        ctx.nt(["synthetic", n.sql()])
        check_tree(ctx, n, ["", "duckdb", "tsql"], {"sql": n.sql(), "dialect": "base", "synthetic": True}, "synthetic")


def harvested_trees(ctx):
    """trees of dialect-specific statements (harvested vocabulary, see gen/harvest.py), raw and type-annotated"""
    import sqlglot
    from sqlglot.errors import SqlglotError
    from sqlglot.optimizer.annotate_types import annotate_types
    from ..common import dialect_names, guarded
    from ..gen.harvest import harvested

    stride = 4 if ctx.tier == "quick" else 1
    k = 0
    names = [d for d in dialect_names() if d]
    for di, d in enumerate(names):
        texts, found = harvested(d)
        for ti, s in enumerate(texts):
            k += 1
            if k % ctx.nshards != ctx.shard or (ti + di) % stride:
                continue
            if ctx.expired():
                return
            st, t = guarded(lambda: sqlglot.parse_one(s, read=d), len(s) // 3 + 10)
            if st != "ok" or t is None:
                continue
            ctx.count("harvested_trees")
            ctx.count("evaluations")
            case = {"sql": s, "dialect": d}
            others = [d, names[(di + ti) % len(names)]]
            if ti % 3 == 0:
                try:
                    check_tree(ctx, annotate_types(t.copy(), dialect=d), others, case, "harvested-annotated")
                except SqlglotError:
                    pass
                except Exception:
                    ctx.count("annotate_internal_error")
            check_tree(ctx, t, others, case, "harvested", in_place=True)


def worker(ctx):
    import sqlglot
    from sqlglot.errors import SqlglotError
    from sqlglot.optimizer.annotate_types import annotate_types
    from sqlglot.optimizer.qualify import qualify
    from ..common import dialect_names
    from .c07 import add_comments

    dialects = dialect_names()
    spec = SPEC[ctx.tier]
    for i in ctx.mine(spec["statements"]):
        if ctx.expired():
            break
        rng = ctx.case_rng(i)
        tables = sqlgen.gen_schema(rng)
        s, kind = stmts.gen_statement(rng, tables, wide_types=True)
        s, _ = add_comments(rng, s, rng.randint(0, 3))
        schema = sqlgen.sqlglot_schema(tables)
        ds = rng.sample(dialects, 6)
        for d in ds[:3]:
            dn = d or "base"
            try:
                t = sqlglot.parse_one(s, read=d)
            except SqlglotError:
                continue
            except Exception:
                ctx.count("internal(C05)")
                continue
            case = {"sql": s, "dialect": dn}
            others = [d] + ds[3:]
            variants = [("raw", t)]
            try:
                variants.append(("annotated", annotate_types(t.copy(), dialect=d)))
            except SqlglotError:
                pass
            except Exception:
                ctx.count("annotate_internal_error")
            if kind.startswith("select"):
                try:
                    q = qualify(t.copy(), schema=schema, dialect=d)
                    variants.append(("qualified+annotated", annotate_types(q, schema=schema, dialect=d)))
                except SqlglotError:
                    ctx.count("qualify_sqlglot_error")
                except Exception:
                    ctx.count("qualify_internal_error")
            for vname, vt in variants:
                ctx.count("evaluations")
                if any(n.comments or n._meta or getattr(n, "_type", None) is not None for n in vt.walk()):
                    ctx.nt([s, dn, vname])
                check_tree(ctx, vt, others, case, vname, in_place=(vname != "raw"))
        if i % 401 == 0:
            ctx.sample({"sql": s, "dialects": [x or "base" for x in ds[:3]]})
    harvested_trees(ctx)
    if ctx.shard == 0:
        synthetic(ctx)


def conclude(agg):
    c = agg["counters"]
    need = 15000 if agg["tier"] == "quick" else 150000
    if c["roundtrips_compared"] < need:
        return [f"only {c['roundtrips_compared']} round trips compared (minimum {need})"]
    return []

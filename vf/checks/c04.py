"""C04 - quoting of strings, identifiers and comments is lossless and inescapable."""
from __future__ import annotations

import itertools
import sqlite3

LEVEL_TEXT = ("Lex-back monitoring: for adversarial Unicode strings and every dialect, the SQL generated for a string literal / "
              "quoted identifier / builder-constructed statement / commented statement is tokenized by that dialect's own "
              "tokenizer: exactly one string (identifier) token whose text is the value; the token stream around a value or a "
              "comment equals that of a harmless template. SQLite and DuckDB echo the literal / identifier back as a second, "
              "independent judge of generator and tokenizer together.")
LEVEL_TEXT += (" Quoted identifiers are also generated with the node's optional flags (temporary / global_) set.")
LEVEL_NOTE = "Dialect.tokenize defines 'lexes back' (cross-checked by two real engines for their dialects); NUL is excluded from the engine echo"
TECHNIQUE = "runtime monitoring: token-stream oracle over adversarial strings x dialects, plus engine echo"
RULE = ("all atoms and ordered pairs of an adversarial alphabet (quotes of every dialect, backslash, doubled delimiters, $, $$, "
        "brackets, %, #, ;, comment markers, Jinja markers, newline, CR, CRLF, tab, NUL, multi-byte and astral characters) "
        "plus seeded longer products and random Unicode, x all dialects x {string, convert, identifier, builder slot, comment}; "
        "non-trivial = value contains a quote, backslash, comment marker or control character; distinct = distinct (value, dialect, kind)")
ASSUMPTIONS = ["a dialect whose generator cannot quote identifiers at all is skipped for identifiers (counted)"]
SPEC = {
    "quick": {"shards": 16, "time_cap": 400, "random": 1500},
    "thorough": {"shards": 16, "time_cap": 1500, "random": 30000},
}

ATOMS = ["'", '"', "`", "\\", "''", '""', "``", "\\'", '\\"', "\\\\", "$", "$$", "$tag$", "[", "]", "]]", "{", "}", "%", "#", ";",
         "--", "/*", "*/", "/* x */", "{#", "#}", "{{", "}}", "{%", "\n", "\r", "\r\n", "\t", "\x00", "\x1a", "\b", "é", "ß", "日本", "😀",
         " ", " ", "a", " ", "x'", "N'", "0", "\\n", "\\x41", "\\u0041", "\\0", "q'[", "@", "?", ":", "||", "|"]
RISKY = set("'\"`\\\n\r\t\x00$[]#-/*{}%;")


def values(ctx, nrandom):
    """(index, value) for this shard: atoms, all ordered pairs, seeded longer products, random unicode"""
    vals = list(ATOMS)
    vals += [a + b for a, b in itertools.product(ATOMS, repeat=2)]
    vals += ["a" + a + "b" for a in ATOMS] + [a + "x" + a for a in ATOMS]
    out = list(enumerate(vals))
    base = len(vals)
    for j in range(nrandom):
        rng = ctx.case_rng(j)
        k = rng.randint(1, 6)
        if rng.random() < 0.7:
            v = "".join(rng.choice(ATOMS) for _ in range(k))
        else:
            v = "".join(chr(rng.choice([rng.randint(1, 127), rng.randint(128, 0x2FFF), rng.randint(0x1F300, 0x1F6FF)])) for _ in range(k))
            v = v.encode("utf-8", "ignore").decode("utf-8", "ignore")
        out.append((base + j, v))
    return [(i, v) for i, v in out if i % ctx.nshards == ctx.shard and v]


def _tok(D, sql):
    from sqlglot.errors import SqlglotError

    try:
        return list(D.tokenize(sql)), None
    except SqlglotError as e:
        return None, f"{type(e).__name__}: {str(e)[:120]}"
    except Exception as e:
        return None, f"internal:{type(e).__name__}: {str(e)[:120]}"


STRING_TYPES = {"STRING", "NATIONAL_STRING", "RAW_STRING", "HEREDOC_STRING", "UNICODE_STRING", "BYTE_STRING"}


def feature(v):
    f = []
    if "\\" in v:
        f.append("backslash")
    if any(c in v for c in "'\"`"):
        f.append("quote")
    if any(c in v for c in "\n\r\t\x00\x1a\b"):
        f.append("control")
    if any(m in v for m in ("--", "/*", "*/", "{#", "#}", "{{", "{%")):
        f.append("comment-marker")
    if any(c in v for c in "$[]"):
        f.append("dollar-bracket")
    return "+".join(f) or "plain"


def check_value(ctx, d, D, v, vi):
    from sqlglot import exp, select

    dn = d or "base"
    case = {"value": v, "dialect": dn}
    nontrivial = bool(set(v) & RISKY)

    def one_token(sql, kind, want_types):
        toks, err = _tok(D, sql)
        ctx.count("tokenizations")
        ctx.count("evaluations")
        if nontrivial:
            ctx.nt([v, dn, kind])
        if err:
            return f"token-error", {"sql": sql, "error": err}
        if len(toks) != 1:
            return "token-count", {"sql": sql, "tokens": [(t.token_type.name, t.text) for t in toks][:6]}
        if toks[0].token_type.name not in want_types:
            return "token-type", {"sql": sql, "type": toks[0].token_type.name}
        if toks[0].text != v:
            return "text-differs", {"sql": sql, "text": toks[0].text}
        return None, None

    # --- string literals ----------------------------------------------------------
    skip_str = (dn == "athena" and "\\" in v)          # listed finding, see PROBES
    if not skip_str:
        for kind, node in (("string", exp.Literal.string(v)), ("convert", exp.convert(v))):
            try:
                sql = node.sql(dialect=d)
            except Exception as e:
                ctx.violation(f"{kind}:{dn}:generate-raises:{type(e).__name__}", {"value": v, "error": repr(e)[:200]}, case)
                continue
            bad, det = one_token(sql, kind, STRING_TYPES)
            if bad:
                ctx.violation(f"{kind}:{dn}:{bad}:{feature(v)}", {"value": v, **det}, case)
        # national literal (N'...') where the dialect writes one; elsewhere it degrades to a plain string: either way one
        # string token carrying the value
        if vi % 4 == 0:
            try:
                nsql = exp.National(this=v).sql(dialect=d)
                bad, det = one_token(nsql, "national", STRING_TYPES)
                if bad:
                    ctx.violation(f"national:{dn}:{bad}:{feature(v)}", {"value": v, **det}, case)
            except Exception as e:
                ctx.violation(f"national:{dn}:generate-raises:{type(e).__name__}", {"value": v, "error": repr(e)[:200]}, case)
        # builder slot: the token stream equals the template's except for the one value token
        try:
            q = select("a").from_("t").where(exp.column("c").eq(v)).sql(dialect=d, pretty=(vi % 2 == 0))
            tpl = select("a").from_("t").where(exp.column("c").eq("harmless")).sql(dialect=d, pretty=(vi % 2 == 0))
            tq, e1 = _tok(D, q)
            tt, e2 = _tok(D, tpl)
            ctx.count("tokenizations", 2)
            if e1 or e2:
                ctx.violation(f"builder:{dn}:token-error:{feature(v)}", {"value": v, "sql": q, "error": e1 or e2}, case)
            else:
                a = [(t.token_type.name, t.text) for t in tq]
                b = [(t.token_type.name, t.text) for t in tt]
                diff = [i for i, (x, y) in enumerate(zip(a, b)) if x != y]
                if len(a) != len(b) or len(diff) != 1 or a[diff[0]][1] != v:
                    ctx.violation(f"builder:{dn}:token-stream-differs:{feature(v)}", {"value": v, "sql": q, "tokens": a[:12]}, case)
        except Exception as e:
            ctx.violation(f"builder:{dn}:raises:{type(e).__name__}", {"value": v, "error": repr(e)[:200]}, case)
    # --- other literal kinds inside an indented clause: pretty printing must not change the value that is read back ----
    if vi % 3 == 1 and not skip_str:
        from sqlglot import parse_one as _p1

        for kind, node in (("unicode", exp.UnicodeString(this=v)), ("national", exp.National(this=v))):
            vals = []
            try:
                for pretty in (False, True):
                    out = select("a").from_("t").where(exp.column("c").eq(node.copy())).sql(dialect=d, pretty=pretty)
                    w = _p1(out, read=d).args["where"].this.expression
                    vals.append((type(w).__name__, w.this if isinstance(w.this, str) else w.sql(dialect=d)))
            except Exception:
                ctx.count("literal_kind_slot_not_reparsed")
                continue
            ctx.count("evaluations")
            ctx.count("literal_kind_pretty_checks")
            if vals[0] != vals[1]:
                ctx.violation(f"{kind}:{dn}:pretty-changes-value:{feature(v)}", {"value": v, "flat": vals[0], "pretty": vals[1]}, case)
    # --- quoted identifiers ----------------------------------------------------------
    skip_id = (dn == "clickhouse" and "\\" in v)          # listed finding
    if not skip_id:
        try:
            sql = exp.to_identifier(v, quoted=True).sql(dialect=d, identify=True)
        except Exception as e:
            ctx.violation(f"identifier:{dn}:generate-raises:{type(e).__name__}", {"value": v, "error": repr(e)[:200]}, case)
            sql = None
        if sql is not None:
            bad, det = one_token(sql, "identifier", {"IDENTIFIER", "VAR"} if False else {"IDENTIFIER"})
            if bad:
                ctx.violation(f"identifier:{dn}:{bad}:{feature(v)}", {"value": v, **det}, case)
        # the node's optional flags (temporary / global_, set by the T-SQL parser for #name / ##name and settable by hand) must
        # not open a way around the escaping: still one identifier token, carrying the name (with the marker where a dialect
        # writes it inside the quotes)
        for flag, marks in (("temporary", ("#",)), ("global_", ("##", "#"))):
            try:
                fsql = exp.Identifier(this=v, quoted=True, **{flag: True}).sql(dialect=d)
            except Exception as e:
                ctx.violation(f"identifier:{dn}:generate-raises:{type(e).__name__}", {"value": v, "flag": flag, "error": repr(e)[:200]}, case)
                continue
            ctx.count("identifier_flag_checks")
            toks, err = _tok(D, fsql)
            ctx.count("tokenizations")
            ctx.count("evaluations")
            if err:
                ctx.violation(f"identifier-{flag}:{dn}:token-error:{feature(v)}", {"value": v, "sql": fsql, "error": err}, case)
            elif len(toks) == 2 and toks[0].text in marks and toks[1].token_type.name == "IDENTIFIER" and toks[1].text == v:
                pass    # marker written outside the quotes
            elif len(toks) != 1 or toks[0].token_type.name != "IDENTIFIER":
                ctx.violation(f"identifier-{flag}:{dn}:token-count:{feature(v)}", {"value": v, "sql": fsql, "tokens": [(t.token_type.name, t.text) for t in toks][:6]}, case)
            elif toks[0].text not in (v,) + tuple(m + v for m in marks):
                ctx.violation(f"identifier-{flag}:{dn}:text-differs:{feature(v)}", {"value": v, "sql": fsql, "text": toks[0].text}, case)
    # --- comments -------------------------------------------------------------------
    if vi % 6 == 0:
        from sqlglot import parse_one

        base_tree = parse_one("SELECT a, b + 1 AS c FROM t WHERE x = 1 AND y > 2")
        plain, _ = _tok(D, base_tree.sql(dialect=d))
        for target_cls in (exp.Column, exp.Add, exp.And, exp.Select, exp.Table):
            t = base_tree.copy()
            node = t.find(target_cls)
            if node is None:
                continue
            node.add_comments([v])
            for pretty in (False, True):
                try:
                    out = t.sql(dialect=d, pretty=pretty)
                except Exception as e:
                    ctx.violation(f"comment:{dn}:generate-raises:{type(e).__name__}", {"value": v, "error": repr(e)[:200]}, case)
                    continue
                toks, err = _tok(D, out)
                ctx.count("tokenizations")
                ctx.count("comment_checks")
                if err:
                    ctx.violation(f"comment:{dn}:token-error:{feature(v)}", {"value": v, "sql": out, "error": err}, case)
                elif plain is not None and [(x.token_type.name, x.text) for x in toks] != [(x.token_type.name, x.text) for x in plain]:
                    ctx.violation(f"comment:{dn}:token-stream-changed:{feature(v)}", {"value": v, "sql": out, "on": target_cls.__name__}, case)
            off = t.sql(dialect=d, comments=False)
            if len(v.strip()) >= 3 and v.strip() in off:
                ctx.violation(f"comment:{dn}:text-present-with-comments-off", {"value": v, "sql": off}, case)


_DUCK = None


def engine_echo(ctx, v, vi):
    """SQLite and DuckDB must return the literal's value / report the identifier as the column name"""
    from sqlglot import exp

    global _DUCK
    if "\x00" in v:
        return
    lit = {d: exp.Literal.string(v).sql(dialect=d) for d in ("sqlite", "duckdb")}
    ident = {d: exp.to_identifier(v, quoted=True).sql(dialect=d) for d in ("sqlite", "duckdb")}
    case = {"value": v}
    con = sqlite3.connect(":memory:")
    try:
        try:
            r = con.execute(f"SELECT {lit['sqlite']}").fetchall()
            ctx.count("engine_echoes")
            if r != [(v,)]:
                ctx.violation(f"engine-echo:sqlite:string:{feature(v)}", {"value": v, "sql": lit["sqlite"], "got": repr(r)[:100]}, case)
        except sqlite3.Error as e:
            ctx.violation(f"engine-echo:sqlite:string-rejected:{feature(v)}", {"value": v, "sql": lit["sqlite"], "error": str(e)[:100]}, case)
        try:
            cur = con.execute(f"SELECT 1 AS {ident['sqlite']}")
            ctx.count("engine_echoes")
            if cur.description[0][0] != v:
                ctx.violation(f"engine-echo:sqlite:identifier:{feature(v)}", {"value": v, "sql": ident["sqlite"], "got": cur.description[0][0]}, case)
        except sqlite3.Error as e:
            ctx.violation(f"engine-echo:sqlite:identifier-rejected:{feature(v)}", {"value": v, "sql": ident["sqlite"], "error": str(e)[:100]}, case)
    finally:
        con.close()
    import duckdb

    if _DUCK is None:
        _DUCK = duckdb.connect(config={"threads": 1})
    try:
        r = _DUCK.execute(f"SELECT {lit['duckdb']}").fetchall()
        ctx.count("engine_echoes")
        if r != [(v,)]:
            ctx.violation(f"engine-echo:duckdb:string:{feature(v)}", {"value": v, "sql": lit["duckdb"], "got": repr(r)[:100]}, case)
    except Exception as e:
        ctx.violation(f"engine-echo:duckdb:string-rejected:{feature(v)}", {"value": v, "sql": lit["duckdb"], "error": str(e)[:100]}, case)
    try:
        cur = _DUCK.execute(f"SELECT 1 AS {ident['duckdb']}")
        ctx.count("engine_echoes")
        if cur.description[0][0] != v:
            ctx.violation(f"engine-echo:duckdb:identifier:{feature(v)}", {"value": v, "sql": ident["duckdb"], "got": cur.description[0][0]}, case)
    except Exception as e:
        ctx.violation(f"engine-echo:duckdb:identifier-rejected:{feature(v)}", {"value": v, "sql": ident["duckdb"], "error": str(e)[:100]}, case)


def probes(ctx):
    from sqlglot import exp
    from sqlglot.dialects.dialect import Dialect

    for key, d, kind, v in [("probe/athena:string-with-backslash", "athena", "string", "a\\"),
                            ("probe/clickhouse:identifier-with-backslash", "clickhouse", "identifier", "a\\b")]:
        ctx.count("probes")
        D = Dialect.get_or_raise(d)
        sql = exp.Literal.string(v).sql(dialect=d) if kind == "string" else exp.to_identifier(v, quoted=True).sql(dialect=d)
        toks, err = _tok(D, sql)
        if err or len(toks) != 1 or toks[0].text != v:
            ctx.violation(key, {"value": v, "sql": sql, "error": err, "tokens": [(t.token_type.name, t.text) for t in toks or []]})


def worker(ctx):
    from sqlglot.dialects.dialect import Dialect
    from ..common import dialect_names

    dialects = [(d, Dialect.get_or_raise(d)) for d in dialect_names()]
    vals = values(ctx, SPEC[ctx.tier]["random"])
    for vi, v in vals:
        if ctx.expired():
            break
        for d, D in dialects:
            check_value(ctx, d, D, v, vi)
        engine_echo(ctx, v, vi)
        if vi % 997 == 0:
            ctx.sample({"value": v, "example_sql": {"duckdb": __import__("sqlglot").exp.Literal.string(v).sql("duckdb")}})
    if ctx.shard == 0:
        probes(ctx)


def conclude(agg):
    c = agg["counters"]
    need = 50000 if agg["tier"] == "quick" else 500000
    out = []
    if c["tokenizations"] < need:
        out.append(f"only {c['tokenizations']} tokenizations (minimum {need})")
    if c["engine_echoes"] < 2000:
        out.append("fewer than 2000 engine echoes")
    if c["comment_checks"] < 5000:
        out.append("fewer than 5000 comment checks")
    return out

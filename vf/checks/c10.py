"""C10 - qualification is complete, idempotent and faithful to dialect identifier rules."""
from __future__ import annotations

import json
import os

from ..common import VERIF_DIR
from ..gen import sqlgen

LEVEL_TEXT = ("Output monitoring of qualify() on generated queries with ground truth: every table aliased, every column qualified "
              "by a source that an independent resolver (own code over the AST, not optimizer.scope) finds visible at that point "
              "or an ORDER BY reference to an output name, no star left, output names and star expansion equal to the "
              "generator's record, and qualify(result) / qualify(parse(result SQL)) reproduce the same SQL. Identifier "
              "normalisation is compared with a 15-line reference model driven by a pinned per-dialect table, for quoted, "
              "unquoted, mixed-case and non-ASCII identifiers, including idempotence and the strategy override syntax.")
LEVEL_TEXT += (" Queries include correlated references below derived tables and NATURAL JOINs; the visibility resolver hides a query's own sources from its FROM items and CTE bodies.")
LEVEL_NOTE = ("the per-dialect normalisation strategies are pinned in vf/spec/normalization.json (the dialect rules are the "
              "specification; reading them from the library at run time would follow a mutant)")
TECHNIQUE = "runtime monitoring: ground-truth + independent resolver oracle on qualify output; reference-model comparison for identifier normalisation"
RULE = ("seeded query generator (unqualified / partially qualified columns, USING joins, stars, nested scopes, correlated "
        "subqueries, CTEs with column lists, set operations) x schemas of depth 1-3 x dialects of every normalisation strategy; "
        "non-trivial = query with an unqualified column or a star; distinct = distinct (sql, dialect, depth)")
ASSUMPTIONS = ["OptimizeError is an allowed outcome of qualify"]
SPEC = {
    "quick": {"shards": 16, "time_cap": 400, "queries": 9000, "idents": 1000},
    "thorough": {"shards": 16, "time_cap": 1500, "queries": 50000, "idents": 10000},
}
FEATS = dict(unqualified=0.75, stars="base-only", cte_cols=True, using=True, window=True, any_sub=False, star_dup_order=False,
             setops_all=False, nulls_order=True, nested_with=True, deep_corr=0.3, natural_join=0.15, star_beside_using=0.5, derived_setop=0.1, agg_order_by=0.3)
QDIALECTS = ["", "duckdb", "postgres", "snowflake", "mysql", "bigquery", "tsql", "spark", "sqlite", "oracle", "clickhouse", "trino"]

with open(os.path.join(VERIF_DIR, "vf", "spec", "normalization.json")) as _f:
    NORM = json.load(_f)

_ASCII_UP = {i: i - 32 for i in range(97, 123)}
_ASCII_LO = {i: i + 32 for i in range(65, 91)}


def model_normalize(name, quoted, dn):
    """reference model of Dialect.normalize_identifier for a bare identifier"""
    st = NORM[dn]["strategy"]
    ascii_only = NORM[dn]["ascii_only"]
    if st == "CASE_SENSITIVE":
        return name
    if quoted and st not in ("CASE_INSENSITIVE", "CASE_INSENSITIVE_UPPERCASE"):
        return name
    if st in ("UPPERCASE", "CASE_INSENSITIVE_UPPERCASE"):
        return name.translate(_ASCII_UP) if ascii_only else name.upper()
    return name.translate(_ASCII_LO) if ascii_only else name.lower()


# ---------------------------------------------------------------------------------
# independent visibility resolver
# ---------------------------------------------------------------------------------

def own_sources(select):
    """aliases introduced by the FROM / JOIN items of this SELECT"""
    from sqlglot import exp

    out = set()
    items = []
    fr = select.args.get("from_") or select.args.get("from")
    if fr is not None:
        items.append(fr.this)
    for j in select.args.get("joins") or []:
        items.append(j.this)
    for lat in select.args.get("laterals") or []:
        items.append(lat)
    for it in items:
        if it is None:
            continue
        name = it.alias_or_name
        if name:
            out.add(name)
    return out


def enclosing_select(node):
    from sqlglot import exp

    p = node.parent
    while p is not None and not isinstance(p, exp.Select):
        p = p.parent
    return p


def _in_source_position(s, E):
    """is select `s` (part of) a FROM / JOIN item or a CTE body of its enclosing select E? Such a query does not see E's
    own sources (a derived table cannot name itself or its siblings; LATERAL items can)"""
    from sqlglot import exp

    prev, p = s, s.parent
    while p is not None and p is not E:
        prev, p = p, p.parent
    if p is None:
        return False
    if isinstance(prev, (exp.From, exp.With)):
        return not any(isinstance(x, exp.Lateral) for x in _path(s, prev))
    if isinstance(prev, exp.Join):
        # below join.this (the joined item) or below ON / USING?
        q = s
        while q.parent is not prev:
            q = q.parent
        return q is prev.this and not isinstance(q, exp.Lateral)
    return False


def _path(s, top):
    p = s
    while p is not None and p is not top:
        yield p
        p = p.parent


def visible_sources(select):
    out = set()
    s, hidden = select, False
    while s is not None:
        if not hidden:
            out |= own_sources(s)
        E = enclosing_select(s)
        hidden = E is not None and _in_source_position(s, E)
        s = E
    return out


def audit_qualified(tree, expected_names):
    """-> list of problems"""
    from sqlglot import exp

    probs = []
    for t in tree.find_all(exp.Table):
        if isinstance(t.parent, (exp.From, exp.Join)) and not t.alias:
            probs.append(("table-without-alias", t.sql()))
    if any(True for _ in tree.find_all(exp.Star) if not isinstance(_.parent, (exp.Count, exp.AggFunc, exp.Anonymous))):
        for st in tree.find_all(exp.Star):
            if not isinstance(st.parent, exp.Func):
                probs.append(("star-left", st.parent.sql()[:60] if st.parent else "*"))
                break
    for c in tree.find_all(exp.Column):
        sel = enclosing_select(c)
        in_order = c.find_ancestor(exp.Order) is not None
        if sel is None:
            # ORDER BY of a set operation: only output names
            if not c.table and in_order:
                continue
            probs.append(("column-outside-select", c.sql()))
            continue
        order_anc = c.find_ancestor(exp.Order)
        # only the query's own ORDER BY may name an output column; the ORDER BY inside an aggregate call or a window may not
        in_own_order = order_anc is not None and order_anc.parent is sel and not c.find_ancestor(exp.Window)
        if not c.table:
            if in_own_order and c.name in sel.named_selects:
                continue
            clause = c.find_ancestor(exp.Where, exp.Having, exp.Group, exp.Order, exp.Join, exp.Qualify)
            probs.append((f"column-not-qualified:{type(clause).__name__ if clause is not None else 'Projection'}", c.sql()))
        elif c.table not in visible_sources(sel):
            probs.append(("column-qualified-by-invisible-source", c.sql()))
    if expected_names is not None:
        names = list(tree.named_selects)
        if names != expected_names:
            probs.append(("output-names-differ", {"got": names, "expected": expected_names}))
    return probs


def nest_schema(schema, depth):
    if depth == 1:
        return schema
    if depth == 2:
        return {"db1": schema}
    return {"cat1": {"db1": schema}}


def gen_case(rng, feats=FEATS):
    tables = sqlgen.gen_schema(rng)
    g = sqlgen.Gen(rng, tables, feats)
    return tables, {}, g.query()


def check_query(ctx, q, tables, d, depth, i=1, isolate=False):
    import sqlglot
    from sqlglot.errors import OptimizeError, SqlglotError
    from sqlglot.optimizer.qualify import qualify

    dn = d or "base"
    text = q.render("portable")
    schema = nest_schema(sqlgen.sqlglot_schema(tables), depth)
    case = {"sql": text, "dialect": dn, "depth": depth}
    try:
        tree = sqlglot.parse_one(text, read=d)
    except SqlglotError:
        ctx.count("not_parsed")
        return
    try:
        r1 = qualify(tree.copy(), schema=schema, dialect=d, isolate_tables=isolate)
    except OptimizeError as e:
        ctx.count("optimize_error")
        return
    except SqlglotError:
        ctx.count("other_sqlglot_error")
        return
    except Exception as e:
        ctx.violation(f"internal-exception:qualify:{type(e).__name__}", {"sql": text, "dialect": dn, "error": repr(e)[:200]}, case)
        return
    ctx.count("evaluations")
    ctx.count("qualified_queries")
    if {"star"} & q.tags or any(c[0] == "col" and c[1] is None for c in sqlgen.query_exprs(q)):
        ctx.nt([text, dn, depth])
    expected = [model_normalize(n, False, dn) for n, _, _ in q.out]
    probs = audit_qualified(r1, expected)
    if probs:
        p = probs[0]
        sig = f"qualify:{p[0]}" + (f":{dn}" if p[0].startswith("column-not-qualified") else "")
        ctx.violation(sig, {"sql": text, "dialect": dn, "depth": depth, "problem": p[1], "qualified": r1.sql(dialect=d)[:500]}, case)
        return
    # a qualified star stands for the columns of that very source
    from sqlglot import exp as _exp

    if isinstance(r1, _exp.Select) and getattr(q, "projs", None) and not getattr(q, "setops", None):
        pos, ok_layout = 0, True
        by_alias = {s2.alias: s2 for s2 in getattr(q, "scope", [])}
        for e, _a in q.projs:
            if isinstance(e, tuple) and e[0] == "star":
                if e[1] is None or e[1] not in by_alias:
                    ok_layout = False
                    break
                want = model_normalize(e[1], False, dn)
                for c in by_alias[e[1]].cols:
                    sel = r1.selects[pos].unalias() if pos < len(r1.selects) else None
                    ctx.count("qualified_star_columns_checked")
                    if not (isinstance(sel, _exp.Column) and sel.table == want and sel.name == model_normalize(c[0], False, dn)):
                        ctx.violation("qualify:qualified-star-expands-to-something-else",
                                      {"sql": text, "dialect": dn, "star": e[1], "column": c[0], "got": sel.sql(dialect=d) if sel is not None else None,
                                       "qualified": r1.sql(dialect=d)[:400]}, case)
                        return
                    pos += 1
            else:
                pos += 1
    sql1 = r1.sql(dialect=d)
    from ..oracle import canon

    try:
        sql2 = qualify(r1.copy(), schema=schema, dialect=d, isolate_tables=isolate).sql(dialect=d)
        # the re-parsed variant is only meaningful when the dialect can write the qualified tree faithfully
        # (MySQL has no FULL JOIN, T-SQL emulates NULLS LAST with CASE ...): that is C01/C02's subject, not qualify's
        back = sqlglot.parse_one(sql1, read=d)
        if canon.canon_equal(back, r1):
            sql3 = qualify(back, schema=schema, dialect=d, isolate_tables=isolate).sql(dialect=d)
            ctx.count("reparsed_idempotence_checks")
        else:
            sql3 = sql1
            ctx.count("reparse_is_not_faithful_in_this_dialect(skipped)")
    except SqlglotError as e:
        ctx.violation(f"qualify:requalification-raises:{type(e).__name__}", {"sql": text, "dialect": dn, "qualified": sql1[:400], "error": str(e)[:200]}, case)
        return
    ctx.count("idempotence_checks")
    if sql2 != sql1:
        ctx.violation("qualify:not-idempotent:on-tree", {"sql": text, "dialect": dn, "first": sql1[:400], "second": sql2[:400]}, case)
    elif sql3 != sql1:
        ctx.violation("qualify:not-idempotent:on-reparsed-sql", {"sql": text, "dialect": dn, "first": sql1[:400], "second": sql3[:400]}, case)
    if i % 401 == 0:
        ctx.sample({"sql": text, "dialect": dn, "qualified": sql1[:300]})


IDENT_BASES = ["abc", "ABC", "MixedCase", "with space", "ünïcode", "ÄÖÜ", "ß", "İstanbul", "a_b1", "Σίσυφος", "ǅ", "日本語", "x" * 40, "A1b2C3"]


def check_identifiers(ctx, n):
    from sqlglot import exp
    from sqlglot.dialects.dialect import Dialect
    from sqlglot.optimizer.normalize_identifiers import normalize_identifiers
    from ..common import dialect_names

    dialects = dialect_names()
    for i in ctx.mine(n):
        rng = ctx.case_rng(5_000_000 + i)
        base = rng.choice(IDENT_BASES)
        if rng.random() < 0.4:
            base = "".join(rng.choice([c.upper(), c.lower()]) for c in base)
        quoted = rng.random() < 0.5
        for d in dialects:
            dn = d or "base"
            D = Dialect.get_or_raise(d)
            ident = exp.to_identifier(base, quoted=quoted)
            got = D.normalize_identifier(ident.copy())
            want = model_normalize(base, quoted, dn)
            ctx.count("evaluations")
            ctx.count("identifiers_checked")
            case = {"identifier": base, "quoted": quoted, "dialect": dn}
            if got.name != want:
                kind = "case-sensitive-identifier-altered" if want == base else "wrong-folding"
                ctx.violation(f"normalize_identifier:{kind}:{NORM[dn]['strategy']}", {"identifier": base, "quoted": quoted, "dialect": dn, "got": got.name, "model": want}, case)
                continue
            if got.args.get("quoted") != ident.args.get("quoted"):
                ctx.violation("normalize_identifier:quoted-flag-changed", case, case)
            again = D.normalize_identifier(got.copy())
            if again.name != got.name:
                ctx.violation(f"normalize_identifier:not-idempotent:{NORM[dn]['strategy']}", {**case, "once": got.name, "twice": again.name}, case)
            # string entry point + strategy override
            if i % 5 == 0 and base.isascii() and " " not in base:
                for st in ("lowercase", "uppercase", "case_sensitive", "case_insensitive"):
                    try:
                        r = normalize_identifiers(base, dialect=f"{d}, normalization_strategy={st}" if d else None)
                    except Exception:
                        break
                    if not d:
                        break
                    ctx.count("override_checks")
                    exp_name = base if st == "case_sensitive" else base.upper() if st == "uppercase" else base.lower()
                    if r.name != exp_name:
                        ctx.violation(f"normalize_identifiers:strategy-override:{st}", {**case, "got": r.name, "expected": exp_name}, case)


CASE_WORDS = ["Orders", "Customers", "Qty", "Name", "ID", "userId", "Total_Amount", "a", "B"]
CASE_DIALECTS = ["bigquery", "snowflake", "duckdb", "postgres", "mysql", "spark", "tsql", "trino", "clickhouse", ""]


def check_case_family(ctx, i):
    """mixed-case schemas in which a spelling is used both as a table name and as a column name (of the same
    or of another table); expected star expansion = the reference model applied to the schema's columns, in order"""
    import sqlglot
    from sqlglot.errors import OptimizeError, SqlglotError
    from sqlglot.optimizer.qualify import qualify

    rng = ctx.case_rng(7_000_000 + i)
    words = rng.sample(CASE_WORDS, 5)
    t1, t2 = words[0], words[1]
    cols1 = [t1 if rng.random() < 0.5 else words[2], words[3]]
    cols2 = [t2 if rng.random() < 0.4 else words[4], t1 if rng.random() < 0.4 else words[2] + "2"]
    if len(set(c.lower() for c in cols1)) < 2 or len(set(c.lower() for c in cols2)) < 2:
        return
    d = rng.choice(CASE_DIALECTS)
    dn = d or "base"
    # BigQuery decides case-sensitivity of a table name by whether it is qualified (documented heuristic):
    # unqualified mixed-case table names are outside what it promises
    depth2 = rng.random() < 0.6 or d == "bigquery"
    tables = {t1: {c: "INT" for c in cols1}, t2: {c: "INT" for c in cols2}}
    if rng.random() < 0.5:
        tables = dict(reversed(list(tables.items())))   # registration order matters for caches
    schema = {"ds": tables} if depth2 else tables
    pre = "ds." if depth2 else ""
    queries = [
        (f"SELECT * FROM {pre}{t1}", cols1),
        (f"SELECT * FROM {pre}{t2}", cols2),
        (f"SELECT x.* FROM {pre}{t1} AS x", cols1),
        (f"SELECT {cols1[0]}, {cols1[1]} FROM {pre}{t1}", cols1),
        (f"SELECT x.*, y.* FROM {pre}{t1} AS x CROSS JOIN {pre}{t2} AS y", cols1 + cols2),
    ]
    rng.shuffle(queries)
    for sql, cols in queries[:3]:
        case = {"sql": sql, "dialect": dn, "schema": schema}
        try:
            tree = sqlglot.parse_one(sql, read=d)
            r1 = qualify(tree, schema=schema, dialect=d)
        except OptimizeError as e:
            # the schema is well-formed and every name exists: failing to resolve is a wrong answer here
            if NORM[dn]["strategy"] != "CASE_SENSITIVE" or True:
                ctx.violation(f"qualify:case-family:unexpected-OptimizeError:{dn}", {"sql": sql, "dialect": dn, "error": str(e)[:160], "schema": schema}, case)
            continue
        except SqlglotError:
            continue
        except Exception as e:
            ctx.violation(f"internal-exception:qualify:{type(e).__name__}", {"sql": sql, "dialect": dn, "error": repr(e)[:200]}, case)
            continue
        ctx.count("evaluations")
        ctx.count("case_family_queries")
        ctx.nt([sql, dn, repr(schema)])
        expected = [model_normalize(c, False, dn) for c in cols]
        got = list(r1.named_selects)
        if got != expected:
            ctx.violation(f"qualify:case-family:output-names:{dn}", {"sql": sql, "dialect": dn, "got": got, "expected": expected, "schema": schema}, case)
            continue
        try:
            s1 = r1.sql(dialect=d)
            s2 = qualify(r1.copy(), schema=schema, dialect=d).sql(dialect=d)
            if s1 != s2:
                ctx.violation(f"qualify:case-family:not-idempotent:{dn}", {"sql": sql, "first": s1, "second": s2}, case)
        except SqlglotError as e:
            ctx.violation(f"qualify:case-family:requalification-raises:{dn}", {"sql": sql, "dialect": dn, "error": str(e)[:160], "schema": schema}, case)


PROBES = [
    ("probe/star-expands-cte-columns-before-table-columns", "WITH cte1 AS (SELECT t1.a1 AS p3 FROM t1) SELECT * FROM t2 AS x6 JOIN cte1 AS c7 ON x6.a2 = c7.p3",
     ["k", "a2", "b2", "p3"]),
]


def run_probes(ctx):
    import sqlglot
    from sqlglot.optimizer.qualify import qualify

    schema = {"t1": {"k": "INT", "a1": "INT"}, "t2": {"k": "INT", "a2": "INT", "b2": "INT"}}
    for key, sql, names in PROBES:
        ctx.count("probes")
        try:
            r = qualify(sqlglot.parse_one(sql), schema=schema, isolate_tables=True)
            if list(r.named_selects) != names:
                ctx.violation(key, {"sql": sql, "got": list(r.named_selects), "expected": names})
        except Exception as e:
            ctx.violation(key, {"sql": sql, "error": repr(e)[:200]})


def worker(ctx):
    spec = SPEC[ctx.tier]
    for i in ctx.mine(spec["queries"]):
        if ctx.expired():
            break
        rng = ctx.case_rng(i)
        tables, _, q = gen_case(rng)
        for d in rng.sample(QDIALECTS, 2):
            check_query(ctx, q, tables, d, rng.choice([1, 1, 2, 3]), i, isolate=rng.random() < 0.3)
    for i in ctx.mine(spec["idents"] * 3):
        check_case_family(ctx, i)
    check_identifiers(ctx, spec["idents"])
    if ctx.shard == 0:
        run_probes(ctx)


def conclude(agg):
    c = agg["counters"]
    out = []
    if c["qualified_queries"] < (1000 if agg["tier"] == "quick" else 10000):
        out.append(f"only {c['qualified_queries']} queries were qualified and audited")
    if c["identifiers_checked"] < 5000:
        out.append(f"only {c['identifiers_checked']} identifiers compared with the model")
    return out

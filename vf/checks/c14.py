"""C14 - error levels change how problems are reported, never what is produced."""
from __future__ import annotations

import logging

from ..gen import stmts, sqlgen
from ..oracle import canon

LEVEL_TEXT = ("Relational monitoring of four runs of the same input: parse under IGNORE/WARN/RAISE/IMMEDIATE (fresh call and a "
              "Parser object reused per dialect and level) with the 'sqlglot' logger captured, and generation of each parsed "
              "tree into another dialect under the four unsupported levels. Checked: IGNORE and WARN never raise and return "
              "equal trees; RAISE raises exactly when WARN logged; its exception carries the collected errors and renders at "
              "most max_errors; IMMEDIATE raises the first of them; error_level is restored; IGNORE/WARN/RAISE generate the "
              "same SQL; RAISE/IMMEDIATE raise UnsupportedError exactly when WARN logged a warning.")
LEVEL_TEXT += (" Generation levels are also decided over every dialect's harvested statements written to rotating target dialects.")
LEVEL_TEXT += (' Limits include 0; an error rendered in the message past the limit is a violation on the parser and on the generator side.')
LEVEL_NOTE = "inputs on which the library raises an internal exception are C05's subject and are skipped here (counted)"
TECHNIQUE = "runtime monitoring: relational oracle over four runs per input with log capture"
RULE = ("valid, single-edit-mutated and multi-statement inputs x sampled dialects x max_errors in {0,1,2,3,10}; generated trees x "
        "sampled (read, write) dialect pairs x max_unsupported in {0,1,3}; non-trivial = input with >= 1 recorded error or "
        ">= 1 unsupported message; distinct = distinct (text, dialect, max_errors)")
ASSUMPTIONS = ["TokenError is a tokenizer outcome and only has to be identical at all levels"]
SPEC = {
    "quick": {"shards": 16, "time_cap": 400, "statements": 2400},
    "thorough": {"shards": 16, "time_cap": 1500, "statements": 25000},
}


class Capture(logging.Handler):
    def __init__(self):
        super().__init__(level=logging.DEBUG)
        self.records = []

    def emit(self, record):
        self.records.append((record.levelname, record.getMessage()))


_cap = None


def capture():
    global _cap
    if _cap is None:
        _cap = Capture()
        lg = logging.getLogger("sqlglot")
        lg.addHandler(_cap)
        lg.setLevel(logging.DEBUG)
        lg.propagate = False
    _cap.records = []
    return _cap


def mutate(rng, sql):
    toks = stmts.split_tokens(sql)
    if len(toks) < 3:
        return sql
    r = rng.random()
    i = rng.randrange(len(toks))
    if r < 0.3:
        del toks[i]
    elif r < 0.5:
        toks.insert(i, toks[i])
    elif r < 0.7:
        toks.insert(i, rng.choice(["FROM", ")", "(", ",", "AND", "SELECT", "BY", "1", "NOT", "AS", "*"]))
    elif r < 0.85 and i + 1 < len(toks):
        toks[i], toks[i + 1] = toks[i + 1], toks[i]
    else:
        toks = toks[: max(2, i)]
    return stmts.join_tokens(toks)


def _trees_repr(trees):
    return [None if t is None else canon.canon(t) for t in trees]


def run_parse(kind, sql, d, level, max_errors, parsers):
    """-> ('ok', trees, logs) | ('ParseError', e, logs) | ('TokenError', msg, logs) | ('internal', name, logs)"""
    import sqlglot
    from sqlglot.errors import ParseError, TokenError, SqlglotError
    from sqlglot.dialects.dialect import Dialect

    from ..common import guarded

    cap = capture()

    def call():
        if kind == "fresh":
            return sqlglot.parse(sql, read=d, error_level=level, max_errors=max_errors)
        key = (d, level, max_errors)
        D = Dialect.get_or_raise(d)
        if key not in parsers:
            parsers[key] = D.parser(error_level=level, max_errors=max_errors)
        p = parsers[key]
        return p.parse(D.tokenize(sql), sql)

    # the work budget protects the worker from the non-terminating parses that are C05's subject
    status, val = guarded(call, ntokens=len(sql) // 3 + 10)
    if status == "budget":
        parsers.pop((d, level, max_errors), None)
        return ("internal", "work-budget", list(cap.records))
    try:
        if status == "exc":
            raise val
        trees = val
        if kind != "fresh":
            p = parsers[(d, level, max_errors)]
            if p.error_level != level:
                return ("error-level-leaked", str(p.error_level), list(cap.records))
        return ("ok", trees, list(cap.records))
    except ParseError as e:
        if kind != "fresh":
            p = parsers[(d, level, max_errors)]
            if p.error_level != level:
                return ("error-level-leaked", str(p.error_level), list(cap.records))
        return ("ParseError", e, list(cap.records))
    except TokenError as e:
        return ("TokenError", str(e), list(cap.records))
    except SqlglotError as e:
        return ("other-sqlglot", type(e).__name__, list(cap.records))
    except (RecursionError, Exception) as e:
        # an internal exception is C05's subject, but the long-lived parser must come out of it with its own level
        if kind != "fresh":
            p = parsers.get((d, level, max_errors))
            if p is not None and p.error_level != level:
                return ("error-level-leaked", str(p.error_level), list(cap.records))
        return ("internal", type(e).__name__, list(cap.records))


def check_parse_levels(ctx, sql, d, max_errors, parsers, kind):
    from sqlglot.errors import ErrorLevel

    dn = d or "base"
    case = {"sql": sql, "dialect": dn, "max_errors": max_errors, "parser": kind}
    res = {L: run_parse(kind, sql, d, L, max_errors, parsers) for L in (ErrorLevel.IGNORE, ErrorLevel.WARN, ErrorLevel.RAISE, ErrorLevel.IMMEDIATE)}
    ig, wa, ra, im = (res[L] for L in (ErrorLevel.IGNORE, ErrorLevel.WARN, ErrorLevel.RAISE, ErrorLevel.IMMEDIATE))
    def viol(sig, **detail):
        ctx.violation(f"parse:{sig}", {"sql": sql[:300], "dialect": dn, "max_errors": max_errors, "parser": kind, **detail}, case)

    for name, r in (("IGNORE", ig), ("WARN", wa), ("RAISE", ra), ("IMMEDIATE", im)):
        if r[0] == "error-level-leaked":
            viol(f"error_level-not-restored:{name}", now=r[1])
            return
    if any(r[0] == "internal" for r in res.values()):
        ctx.count("skipped:internal(C05)")
        return
    ctx.count("evaluations")
    ctx.count("parse_relations_evaluated")
    kinds = {r[0] for r in res.values()}
    if "TokenError" in kinds:
        if kinds != {"TokenError"} or len({r[1] for r in res.values()}) != 1:
            viol("token-error-differs-between-levels", outcomes={str(k): v[0] for k, v in res.items()})
        return
    if "other-sqlglot" in kinds:
        ctx.count("other_sqlglot_error")
        return
    if ig[0] != "ok" or wa[0] != "ok":
        viol("ignore-or-warn-raised", ignore=ig[0], warn=wa[0])
        return
    if _trees_repr(ig[1]) != _trees_repr(wa[1]):
        viol("ignore-and-warn-trees-differ", ignore=[t.sql() if t is not None else None for t in ig[1]][:3], warn=[t.sql() if t is not None else None for t in wa[1]][:3])
        return
    if [r for r in ig[2] if r[0] == "ERROR"]:   # the Command-fallback WARNING is not an error report
        viol("ignore-logged", records=ig[2][:2])
        return
    nlogged = len([r for r in wa[2] if r[0] == "ERROR"])
    if nlogged:
        ctx.nt([sql, dn, max_errors])
    if (ra[0] == "ParseError") != (nlogged > 0):
        viol("raise-iff-warn-logged", raise_outcome=ra[0], warn_logged=nlogged)
        return
    if ra[0] == "ParseError":
        e = ra[1]
        errs = e.errors
        if not errs:
            viol("raise-carries-no-errors")
            return
        msg = str(e)
        more = len(errs) - max_errors
        if more > 0 and f"... and {more} more" not in msg:
            viol("raise-message-more-count", n_errors=len(errs), msg_tail=msg[-60:])
            return
        if more <= 0 and "... and " in msg and " more" in msg.split("... and ")[-1][:12]:
            viol("raise-message-claims-more", n_errors=len(errs), msg_tail=msg[-60:])
            return
        for k, er in enumerate(errs):
            desc = er.get("description") or ""
            shown = f"{desc}. Line {er.get('line')}, Col: {er.get('col')}." in msg
            if k < max_errors and not shown:
                viol("raise-message-misses-error", index=k, description=desc)
                return
            if k >= max_errors and shown and not any(
                    (x.get("description"), x.get("line"), x.get("col")) == (er.get("description"), er.get("line"), er.get("col")) for x in errs[:max_errors]):
                # "at most max_errors rendered in the message": an error past the limit (and not textually equal to one within it) is rendered
                viol("raise-message-renders-more-than-max", index=k, max_errors=max_errors, n_errors=len(errs), description=desc)
                return
        # single statement: the exception carries every error WARN logged
        if ";" not in sql and len(wa[1]) == 1 and len(errs) != nlogged:
            viol("raise-errors-count-differs-from-warn", raise_errors=len(errs), warn_logged=nlogged)
            return
        if im[0] != "ParseError":
            viol("immediate-did-not-raise", immediate=im[0])
            return
        f_im, f_ra = im[1].errors[0], errs[0]
        if (f_im.get("description"), f_im.get("line"), f_im.get("col")) != (f_ra.get("description"), f_ra.get("line"), f_ra.get("col")):
            viol("immediate-is-not-first-error", immediate=f_im.get("description"), first=f_ra.get("description"))
            return
    else:
        if im[0] == "ParseError":
            # IMMEDIATE may only raise when there is something to report
            viol("immediate-raised-but-raise-did-not", immediate=im[1].errors[0].get("description") if im[1].errors else None)
            return
        if _trees_repr(ra[1]) != _trees_repr(wa[1]) or _trees_repr(im[1]) != _trees_repr(wa[1]):
            viol("trees-differ-between-levels-on-valid-input")


_GENS = {}


def check_generate_levels(ctx, tree, read, write, max_unsupported, reuse=False):
    from sqlglot.errors import ErrorLevel, UnsupportedError, SqlglotError
    from sqlglot.dialects.dialect import Dialect

    wn = write or "base"
    try:
        src_text = tree.sql(dialect=read)
    except Exception:
        # the tree cannot even be written back in its own dialect (an internal error: C05's subject)
        ctx.count("skipped:internal(C05)")
        return
    case = {"sql": src_text, "read": read or "base", "write": wn, "max_unsupported": max_unsupported, "reused_generator": reuse}
    out = {}
    for L in (ErrorLevel.IGNORE, ErrorLevel.WARN, ErrorLevel.RAISE, ErrorLevel.IMMEDIATE):
        cap = capture()
        try:
            if reuse:
                # one long-lived Generator per (dialect, level): what it reports must not depend on earlier calls
                key = (write, L, max_unsupported)
                if key not in _GENS:
                    _GENS[key] = Dialect.get_or_raise(write).generator(unsupported_level=L, max_unsupported=max_unsupported)
                out[L] = ("ok", _GENS[key].generate(tree), list(cap.records))
                continue
            out[L] = ("ok", tree.sql(dialect=write, unsupported_level=L, max_unsupported=max_unsupported), list(cap.records))
        except UnsupportedError as e:
            out[L] = ("UnsupportedError", str(e), list(cap.records))
        except SqlglotError as e:
            out[L] = ("other-sqlglot", type(e).__name__, list(cap.records))
        except RecursionError:
            out[L] = ("internal", "RecursionError", [])
        except Exception as e:
            out[L] = ("internal", type(e).__name__, list(cap.records))
    if any(v[0] in ("internal", "other-sqlglot") for v in out.values()):
        ctx.count("skipped:internal(C05)")
        return
    ctx.count("evaluations")
    ctx.count("generate_relations_evaluated")
    ig, wa, ra, im = (out[L] for L in (ErrorLevel.IGNORE, ErrorLevel.WARN, ErrorLevel.RAISE, ErrorLevel.IMMEDIATE))

    def viol(sig, **detail):
        ctx.violation(f"generate:{sig}:{wn}", {**case, **detail}, case)

    if ig[0] != "ok" or wa[0] != "ok":
        viol("ignore-or-warn-raised", ignore=ig[0], warn=wa[0])
        return
    if ig[1] != wa[1]:
        viol("ignore-and-warn-sql-differ", ignore=ig[1][:200], warn=wa[1][:200])
        return
    nwarn = len([r for r in wa[2] if r[0] == "WARNING"])
    if nwarn:
        ctx.nt([case["sql"], wn, max_unsupported])
    if (ra[0] == "UnsupportedError") != (nwarn > 0):
        viol("raise-iff-warn-logged", raise_outcome=ra[0], warn_logged=nwarn)
        return
    if (im[0] == "UnsupportedError") != (nwarn > 0):
        viol("immediate-iff-warn-logged", immediate=im[0], warn_logged=nwarn)
        return
    if ra[0] == "ok" and ra[1] != wa[1]:
        viol("raise-and-warn-sql-differ")
        return
    if ra[0] == "UnsupportedError":
        more = nwarn - max_unsupported
        if more > 0 and f"... and {more} more" not in ra[1]:
            viol("raise-message-more-count", warn_logged=nwarn, msg_tail=ra[1][-60:])
            return
        wmsgs = [str(r[1]) for r in wa[2] if r[0] == "WARNING" and len(r) > 1 and len(str(r[1])) > 8]
        rendered = sorted({m for m in wmsgs if m in ra[1] and not any(m != o and m in o for o in wmsgs)})
        if len(rendered) > max_unsupported:
            viol("raise-message-renders-more-than-max", max_unsupported=max_unsupported, rendered=rendered[:3])


def worker(ctx):
    import sqlglot
    from sqlglot.errors import SqlglotError
    from ..common import dialect_names

    dialects = dialect_names()
    parsers = {}
    for i in ctx.mine(SPEC[ctx.tier]["statements"]):
        if ctx.expired():
            break
        rng = ctx.case_rng(i)
        tables = sqlgen.gen_schema(rng)
        s, kind = stmts.gen_statement(rng, tables)
        inputs = [s, mutate(rng, s), mutate(rng, mutate(rng, s))]
        s2, _ = stmts.gen_statement(rng, tables)
        inputs.append(s + "; " + mutate(rng, s2) + "; " + s2)
        inputs.append(mutate(rng, s) + ";\n" + mutate(rng, s2))
        if i % 6 == 0:
            # hostile nesting inside a speculative-parse region (comma join): whatever the parser raises, a long-lived
            # parser must keep its own error level for the statements that follow
            inputs.insert(rng.randrange(len(inputs)), "SELECT * FROM a, " + "(" * 400 + "SELECT 1")
        for text in inputs:
            for d in rng.sample(dialects, 3):
                me = rng.choice([0, 1, 2, 3, 10])
                check_parse_levels(ctx, text, d, me, parsers, "fresh" if rng.random() < 0.5 else "reused")
        # generation
        for _ in range(3):
            read, write = rng.choice(dialects), rng.choice(dialects)
            try:
                tree = sqlglot.parse_one(s, read=read)
            except SqlglotError:
                continue
            except Exception:
                continue
            check_generate_levels(ctx, tree, read, write, rng.choice([1, 3]), reuse=rng.random() < 0.5)
        if i % 301 == 0:
            ctx.sample({"inputs": inputs[:3]})
    harvested_generation(ctx)
    if ctx.shard == 0:
        generation_probes(ctx)


def harvested_generation(ctx):
    """generation levels over dialect-specific statements (harvested vocabulary, gen/harvest.py) written to other dialects:
    this is where unsupported constructs and the transforms that report them actually occur"""
    import sqlglot
    from ..common import dialect_names, guarded
    from ..gen.harvest import harvested

    names = [d for d in dialect_names() if d]
    stride = 4 if ctx.tier == "quick" else 1
    k = 0
    for di, d in enumerate(names):
        texts, found = harvested(d)
        for ti, s in enumerate(texts):
            k += 1
            if k % ctx.nshards != ctx.shard or (ti + di) % stride:
                continue
            if ctx.expired():
                return
            st, tree = guarded(lambda: sqlglot.parse_one(s, read=d), len(s) // 3 + 10)
            if st != "ok" or tree is None:
                continue
            ctx.count("harvested_trees")
            for j in range(2 if ctx.tier == "quick" else 4):
                write = names[(di * 7 + ti * 3 + j * 11) % len(names)]
                check_generate_levels(ctx, tree, d, write, 3 if (ti + j) % 2 else 1, reuse=(ti + j) % 3 == 0)


UNSUPPORTED_SEEDS = [
    ("duckdb", "sqlite", "SELECT * FROM t PIVOT (SUM(a) FOR b IN ('x', 'y'))"),
    ("postgres", "mysql", "SELECT DISTINCT ON (a) a, b FROM t ORDER BY a"),
    ("snowflake", "sqlite", "SELECT a FROM t QUALIFY ROW_NUMBER() OVER (ORDER BY a) = 1"),
    ("bigquery", "tsql", "SELECT * EXCEPT (a) FROM t"),
    ("duckdb", "mysql", "SELECT a FROM t FULL JOIN u ON t.k = u.k"),
    ("postgres", "hive", "SELECT a FROM t TABLESAMPLE BERNOULLI (10) REPEATABLE (3)"),
    ("snowflake", "postgres", "SELECT a FROM t MATCH_RECOGNIZE (PARTITION BY a ORDER BY b PATTERN (x+) DEFINE x AS b > 1)"),
    ("", "sqlite", "SELECT ARRAY_AGG(a ORDER BY b) FROM t LIMIT 5 BY a"),
]


def generation_probes(ctx):
    """constructs that are known to be unsupported somewhere, so that the generate relation is decided on
    cases where messages really occur"""
    import sqlglot

    for read, write, sql in UNSUPPORTED_SEEDS:
        try:
            tree = sqlglot.parse_one(sql, read=read)
        except Exception:
            continue
        for mu in (0, 1, 3):
            check_generate_levels(ctx, tree, read, write, mu)
            ctx.count("unsupported_seed_cases")
        # history: a supported tree right after an unsupported one on the same long-lived generators, and back
        try:
            plain = sqlglot.parse_one("SELECT a, b FROM t WHERE a > 1")
            for t2 in (tree, plain, tree, plain):
                check_generate_levels(ctx, t2, read, write, 3, reuse=True)
        except Exception:
            pass


def conclude(agg):
    c = agg["counters"]
    out = []
    need = 2000 if agg["tier"] == "quick" else 20000
    if c["parse_relations_evaluated"] < need:
        out.append(f"only {c['parse_relations_evaluated']} parse relations evaluated (minimum {need})")
    if c["generate_relations_evaluated"] < 500:
        out.append(f"only {c['generate_relations_evaluated']} generate relations evaluated")
    return out


def replay(rec):
    from ..runner import ReplayCtx

    ctx = ReplayCtx()
    case = rec["case"]
    d = "" if case.get("dialect") in (None, "base") else case.get("dialect", "")
    if "max_errors" in case:
        check_parse_levels(ctx, case["sql"], d, case["max_errors"], {}, case.get("parser", "fresh"))
    else:
        import sqlglot

        rd = "" if case.get("read") == "base" else case.get("read", "")
        wr = "" if case.get("write") == "base" else case.get("write", "")
        check_generate_levels(ctx, sqlglot.parse_one(case["sql"], read=rd), rd, wr, case.get("max_unsupported", 3), reuse=case.get("reused_generator", False))
    return ctx.report()

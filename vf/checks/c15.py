"""C15 - results are deterministic and independent of earlier calls."""
from __future__ import annotations

import random

from ..common import h64
from ..gen import stmts, sqlgen

LEVEL_TEXT = ("Cross-process digest monitoring: a fixed item set (core-grammar statements, mutated statements that raise, optimizer "
              "queries) is processed by every worker process, each started with its own PYTHONHASHSEED and processing the items "
              "in its own order, through parse->generate, transpile over rotating dialect pairs, optimize, qualify, "
              "annotate_types and lineage. Every output is digested; the driver requires byte-identical digests across all "
              "processes, and inside each process the same item is computed with fresh components and with Parser / Generator / "
              "Tokenizer / MappingSchema objects reused since process start (also after calls that raised).")
LEVEL_TEXT += (" Per dialect one Tokenizer / Parser / Generator is kept over that dialect's harvested statements (own order per process) and compared, including token positions, with components created per statement.")
LEVEL_TEXT += (' User-defined dialects made by one factory function (same qualified class names) are asked in a per-process order with answers known by construction.')
LEVEL_NOTE = "diff() edit order is the documented exception and is not part of the item set"
TECHNIQUE = "runtime monitoring: output digests compared across processes (hash seeds x call orders) and fresh vs reused components"
RULE = ("fixed item set per VERIF_SEED replayed in N processes (distinct hash seeds and permutations); non-trivial = item whose "
        "optimized SQL differs from the input (a rule fired); distinct = distinct (item, API)")
ASSUMPTIONS = ["exceptions are outputs too: their class and message must be identical everywhere"]
SPEC = {
    "quick": {"shards": 12, "time_cap": 400, "items": 600},
    "thorough": {"shards": 48, "time_cap": 1500, "items": 2500},
}
PAIRS = [("", "duckdb"), ("duckdb", "sqlite"), ("postgres", "mysql"), ("snowflake", "bigquery"), ("", "tsql"), ("mysql", "postgres"),
         ("sqlite", "duckdb"), ("spark", "trino"), ("bigquery", "snowflake"), ("", "oracle"), ("duckdb", "clickhouse"), ("", "")]


def shard_env(tier, seed, shard, nshards):
    return {"PYTHONHASHSEED": str((seed * 1000 + shard * 7919) % 4294967295 if shard else 0)}


def items(seed, n):
    """the fixed item set (identical in every process)"""
    out = []
    for i in range(n):
        rng = random.Random(f"{seed}:C15:item:{i}")
        tables = sqlgen.gen_schema(rng)
        if i % 3 == 0:
            g = sqlgen.Gen(rng, tables, dict(any_sub=True, window=True), prof="duckdb")
            sql, kind = g.query().render("duckdb"), "query"
        else:
            sql, kind = stmts.gen_statement(rng, tables)
            if i % 10 == 1:
                from .c14 import mutate

                sql, kind = mutate(rng, sql), "mutated"
        out.append({"id": i, "sql": sql, "kind": kind, "schema": sqlgen.sqlglot_schema(tables), "pair": PAIRS[i % len(PAIRS)]})
    return out


# a shared mixed-case schema in which spellings serve as table and as column names: a long-lived MappingSchema
# must answer the same whatever was asked before (history) and whatever the process
CASE_SCHEMA = {"ds": {"Orders": {"Orders": "INT64", "Region": "STRING", "Qty": "INT64"},
                      "Region": {"Region": "STRING", "Name": "STRING"},
                      "Qty": {"Orders": "INT64", "userId": "INT64"}}}
CASE_ITEMS = [("qualify", "SELECT * FROM ds.Orders"), ("qualify", "SELECT * FROM ds.Region"), ("qualify", "SELECT * FROM ds.Qty"),
              ("qualify", "SELECT Region, Qty FROM ds.Orders"), ("qualify", "SELECT o.Region, r.Name FROM ds.Orders AS o JOIN ds.Region AS r ON o.Region = r.Region"),
              ("names", "ds.Orders"), ("names", "ds.Region"), ("names", "ds.Qty"), ("type", "ds.Orders", "Region"), ("type", "ds.Qty", "userId"),
              ("has", "ds.Region", "Name"), ("has", "ds.Orders", "orders"), ("names", "Orders"), ("names", "Region")]
CASE_DIALECTS = ["bigquery", "snowflake", "duckdb", "mysql"]


def case_schema_digests(order_rng):
    """every (dialect, item) answered by one long-lived schema per dialect, in this process's own order, and by a fresh one"""
    import sqlglot
    from sqlglot.optimizer.qualify import qualify
    from sqlglot.schema import MappingSchema

    def ask(schema, d, it):
        if it[0] == "qualify":
            return qualify(sqlglot.parse_one(it[1], read=d), schema=schema, dialect=d).sql(d)
        if it[0] == "names":
            return list(schema.column_names(it[1]))
        if it[0] == "type":
            return schema.get_column_type(it[1], it[2]).sql()
        return schema.has_column(it[1], it[2])

    out, mismatches = {}, []
    for d in CASE_DIALECTS:
        live = MappingSchema(CASE_SCHEMA, dialect=d)
        order = list(range(len(CASE_ITEMS)))
        order_rng.shuffle(order)
        for k in order:
            it = CASE_ITEMS[k]
            a = _digest(lambda: ask(live, d, it))
            b = _digest(lambda: ask(MappingSchema(CASE_SCHEMA, dialect=d), d, it))
            out[f"case:{d}:{k}"] = a
            if a != b:
                mismatches.append((d, it))
    return out, mismatches


# statements every dialect's long-lived components also see (state kept by a generator between calls shows on these)
STATEFUL_EXTRA = [
    "SELECT JSON_VALUE(payload, '$.id') FROM events", "SELECT JSON_QUERY(payload, '$.items') FROM events",
    """SELECT JSON_EXTRACT(payload, '$."user name"') AS u FROM events""", """SELECT JSON_EXTRACT_SCALAR(payload, '$."a b".c[0]') FROM events""",
    "SELECT payload -> '$.a' ->> '$.b' FROM events", "SELECT x FROM t WHERE a IN (SELECT b FROM u) AND c LIKE 'x%' ESCAPE '!'",
    "SELECT CAST(a AS DECIMAL(10, 2)), CAST(b AS TIMESTAMP), a || b FROM t", "WITH RECURSIVE c AS (SELECT 1 AS n UNION ALL SELECT n + 1 FROM c) SELECT * FROM c",
    "SELECT * FROM t PIVOT(SUM(v) FOR k IN ('a', 'b'))", "SELECT a FROM t QUALIFY ROW_NUMBER() OVER (PARTITION BY b ORDER BY c) = 1",
    "CREATE TABLE t (a INT PRIMARY KEY, b TEXT NOT NULL DEFAULT 'x')", "SELECT * FROM UNNEST([1, 2]) AS x", "SELECT DATE_ADD(d, INTERVAL 1 DAY) FROM t",
    "SELECT STRUCT(1 AS a, 'x' AS b)", "SELECT ARRAY_AGG(DISTINCT a ORDER BY b) FROM t", "SELECT a::INT, b::VARCHAR(10) FROM t", "SELECT 'it''s', \"q\" FROM t",
    # inputs that end before anything can take their pending state: a comment alone, a comment before a lexing error
    "/* only a comment */", "-- just a comment", "/* c */ 'unterminated", "SELECT 1; /* trailing */",
]


def harvested_corpus(dialect):
    """SQL texts of one dialect: STATEFUL_EXTRA plus the strings harvested from the repository's test module of that dialect"""
    from ..gen.harvest import harvested

    texts, found = harvested(dialect)
    return list(STATEFUL_EXTRA) + [t for t in texts if t not in STATEFUL_EXTRA], found


def component_reuse(ctx, digests):
    """Per dialect: one Tokenizer / Parser / Generator kept for the whole corpus, in this process's own order, against a
    fresh pipeline per statement. Each dialect is handled by two processes (different orders, different hash seeds)."""
    import sqlglot
    from sqlglot.dialects.dialect import Dialect
    from ..common import dialect_names, guarded

    names = [d for d in dialect_names() if d]
    half = max(ctx.nshards // 2, 1)
    mine = [d for i, d in enumerate(names) if i % half == ctx.shard % half]
    cap = 450 if ctx.tier == "quick" else 100000
    for d in mine:
        if ctx.expired():
            break
        texts, found = harvested_corpus(d)
        ctx.count("reuse_dialects")
        if found:
            ctx.count("reuse_dialects_with_harvested_corpus")
        rng = random.Random(f"{ctx.seed}:C15:reuse:{d}:{ctx.shard}")
        extra, rest = texts[:len(STATEFUL_EXTRA)], texts[len(STATEFUL_EXTRA):]
        rng.shuffle(rest)
        texts = extra * 2 + rest[:cap]
        rng.shuffle(texts)
        D = Dialect.get_or_raise(d)
        tk, ps, gn = D.tokenizer(), D.parser(), D.generator()
        for ti, sql in enumerate(texts):
            if ctx.expired():
                break
            if ti % 4 == 0:
                # inputs that end in the middle of "something": a line break, a comment, trailing blanks
                sql = sql + ("\n", "\r\n", " -- c\n", "  ")[(ti // 4) % 4]

            def positions(toks):
                return [(t.token_type.name, t.text, t.line, t.col, t.start, t.end) for t in toks]

            def fresh():
                # same calls as reused(), on components created for this statement alone
                D2 = Dialect.get_or_raise(d)
                toks = D2.tokenizer().tokenize(sql)
                trees = D2.parser().parse(toks, sql)
                return [D2.generator().generate(t) if t is not None else "" for t in trees], positions(toks)

            def reused():
                toks = tk.tokenize(sql)
                trees = ps.parse(toks, sql)
                return [gn.generate(t) if t is not None else "" for t in trees], positions(toks)

            ntok = len(sql) // 3 + 10
            st1, a = guarded(lambda: _digest(fresh), ntok)
            st2, b = guarded(lambda: _digest(reused), ntok)
            if st1 != "ok" or st2 != "ok":
                ctx.count("reuse_budget_exceeded")
                continue
            ctx.count("evaluations")
            ctx.count("fresh_vs_reused_compared")
            ctx.count("reuse_statements")
            digests.setdefault("reuse-fresh", {})[f"{d}:{h64(sql)}"] = a
            if a.startswith("EXC") or b.startswith("EXC"):
                ctx.count("reuse_statement_raised")
            ctx.nt([d, sql])
            if a != b:
                fr, ru = None, None
                try:
                    fr, ru = fresh(), reused()
                except Exception:
                    pass
                ctx.violation(f"reused-components-differ-from-fresh:{d}", {"sql": sql, "dialect": d, "fresh": fr, "reused": ru},
                              {"dialect": d, "sql": sql})


HIST_SCHEMA = {"t": {"s": "VARCHAR", "d": "DATE", "ts": "TIMESTAMP", "b": "BOOLEAN", "i": "BIGINT", "n": "DECIMAL(10, 2)", "f": "DOUBLE", "sm": "SMALLINT"}}
HIST_EXPRS = ["COALESCE(t.s, t.d)", "COALESCE(t.d, t.s)", "CASE WHEN t.b THEN t.s ELSE t.ts END", "COALESCE(t.i, t.n)", "COALESCE(t.n, t.f)", "t.i + t.n",
              "t.sm * t.f", "COALESCE(t.sm, t.i)", "GREATEST(t.s, t.d)", "t.s || t.i", "IF(t.b, t.d, t.ts)", "NULLIF(t.i, t.f)", "SUM(t.n)", "AVG(t.sm)"]
HIST_STMTS = ["SELECT JSON_EXTRACT(x, '$.a[*].b') FROM t", "SELECT JSON_EXTRACT_SCALAR(x, '$.a[0].b') FROM t", "SELECT x -> '$.a' FROM t",
              "SELECT CAST(a AS DECIMAL(10, 2)), a::TEXT, DATE_ADD(d, INTERVAL 1 DAY) FROM t", "SELECT * FROM UNNEST([1, 2]) AS x",
              "SELECT STRFTIME(d, '%Y-%m-%d'), STR_TO_TIME(s, '%Y'), ARRAY_AGG(a ORDER BY b) FROM t", "CREATE TABLE t (a INT, b TEXT, c TIMESTAMP)"]


def dialect_history(ctx, digests):
    """what this process computes right after it has loaded its own random selection of dialects, in its own order (process 0:
    none): annotation in several dialects and every dialect's rendering of a few statements. The driver compares the digests
    across processes, so anything that depends on which dialect modules were loaded before shows as a difference."""
    import sqlglot
    from sqlglot.dialects.dialect import Dialect
    from sqlglot.optimizer.annotate_types import annotate_types
    from ..common import dialect_names

    names = [d for d in dialect_names() if d]
    rng = random.Random(f"{ctx.seed}:C15:history:{ctx.shard}")
    pre = [] if ctx.shard == 0 else rng.sample(names, rng.randint(1, 6))
    for d in pre:
        Dialect.get_or_raise(d)
    ctx.extra["preloaded_dialects"] = pre
    out = {}
    for dia in ["", "postgres", "mysql", "snowflake", "duckdb", "tsql", "bigquery", "spark"]:
        for k, e in enumerate(HIST_EXPRS):
            def ann():
                t = annotate_types(sqlglot.parse_one(f"SELECT {e} AS r FROM t", read=dia), schema=HIST_SCHEMA, dialect=dia)
                return t.selects[0].type.sql()
            out[f"annotate:{dia or 'base'}:{k}"] = _digest(ann)
    order = list(names)
    rng.shuffle(order)
    for d in order:
        for k, sql in enumerate(HIST_STMTS):
            out[f"render:{d}:{k}"] = _digest(lambda: sqlglot.transpile(sql, read="", write=d)[0])
            out[f"self:{d}:{k}"] = _digest(lambda: sqlglot.transpile(sql, read=d, write=d)[0])
    ctx.count("dialect_history_answers", len(out))
    ctx.count("evaluations", len(out))
    digests["dialect-history"] = out


def custom_dialect_history(ctx, digests):
    """user-defined dialects (public API: subclass Dialect) made by one factory function, so their classes share module and
    qualified name, plus a re-executed class body; used in this process's own order. Every answer is known by construction
    (the tag of the dialect that was asked must be in the text) and the digests are compared across processes as well."""
    import sqlglot
    from sqlglot import exp
    from sqlglot.dialects.dialect import Dialect
    from sqlglot.generator import Generator as BaseGen
    from sqlglot.tokens import Tokenizer as BaseTok, TokenType

    def make(tag, quote):
        class Custom(Dialect):
            class Tokenizer(BaseTok):
                IDENTIFIERS = [quote]
                KEYWORDS = {**BaseTok.KEYWORDS, f"KW_{tag}": TokenType.CURRENT_DATE}

            class Generator(BaseGen):
                TRANSFORMS = {**BaseGen.TRANSFORMS,
                              exp.Upper: lambda self, e, _t=tag: self.func(f"UP_{_t}", e.this),
                              exp.CurrentDate: lambda self, e, _t=tag: f"TODAY_{_t}"}

                def lower_sql(self, e, _t=tag):
                    return self.func(f"LOW_{_t}", e.this)
        return Custom

    tags = [("A", '"'), ("B", "`"), ("C", '"'), ("D", "`")]
    rng = random.Random(f"{ctx.seed}:C15:custom:{ctx.shard}")
    rng.shuffle(tags)
    classes = {t: make(t, q) for t, q in tags}
    out = {}
    asks = list(tags) * 2
    rng.shuffle(asks)
    for n, (t, q) in enumerate(asks):
        D = classes[t]
        try:
            r1 = sqlglot.transpile(f"SELECT UPPER(x), LOWER(y), KW_{t} FROM {q}T{q}", read=D, write=D)[0]
            r2 = sqlglot.parse_one("SELECT UPPER(LOWER(z))").sql(dialect=D)
        except Exception as e:
            r1 = r2 = "EXC:" + type(e).__name__ + ":" + str(e)[:80]
        ctx.count("custom_dialect_answers", 2)
        ctx.count("evaluations", 2)
        want1 = f"SELECT UP_{t}(x), LOW_{t}(y), TODAY_{t} FROM {q}T{q}"
        want2 = f"SELECT UP_{t}(LOW_{t}(z))"
        if (r1, r2) != (want1, want2):
            ctx.violation("custom-dialect-answers-like-another", {"tag": t, "position": n, "order": [a[0] for a in asks], "got": [r1, r2], "want": [want1, want2]},
                          {"custom_dialect_order": [a[0] for a in asks]})
            break
        out[f"{t}:1"] = h64(r1)
        out[f"{t}:2"] = h64(r2)
    digests["custom-dialects"] = out


def _digest(fn):
    try:
        r = fn()
        return h64(r if isinstance(r, str) else repr(r))
    except RecursionError:
        return "EXC:RecursionError"
    except Exception as e:
        return "EXC:" + type(e).__name__ + ":" + h64(str(e))


def worker(ctx):
    import sqlglot
    from sqlglot import exp
    from sqlglot.dialects.dialect import Dialect
    from sqlglot.lineage import lineage
    from sqlglot.optimizer import optimize
    from sqlglot.optimizer.annotate_types import annotate_types
    from sqlglot.optimizer.qualify import qualify
    from sqlglot.schema import MappingSchema
    from ..common import guarded

    digests_first = {}
    dialect_history(ctx, digests_first)
    its = items(ctx.seed, SPEC[ctx.tier]["items"])
    order = list(range(len(its)))
    random.Random(f"{ctx.seed}:C15:order:{ctx.shard}").shuffle(order)
    reused = {}       # dialect -> (tokenizer, parser, generator)
    schemas = {}      # repr(schema) -> MappingSchema reused across items
    digests = dict(digests_first)
    mism = 0

    def comps(d):
        if d not in reused:
            D = Dialect.get_or_raise(d)
            reused[d] = (D.tokenizer(), D.parser(), D.generator())
        return reused[d]

    for idx in order:
        if ctx.expired():
            break
        it = its[idx]
        sql, (rd, wr), schema = it["sql"], it["pair"], it["schema"]
        ntok = len(sql) // 3 + 10

        def g(fn):
            st, val = guarded(lambda: _digest(fn), ntok)
            return val if st == "ok" else "BUDGET"

        def fresh_roundtrip():
            return sqlglot.transpile(sql, read=rd, write=wr)[0]

        def reused_roundtrip():
            tk, ps, _ = comps(rd)
            _, _, gn = comps(wr)
            trees = ps.parse(tk.tokenize(sql), sql)
            return gn.generate(trees[0]) if trees and trees[0] is not None else ""

        out = {"transpile": g(fresh_roundtrip)}
        r2 = g(reused_roundtrip)
        ctx.count("evaluations")
        ctx.count("fresh_vs_reused_compared")
        # transpile() of one statement and parse+generate with reused components must agree (incl. the exception raised)
        if out["transpile"] != r2 and not (out["transpile"].startswith("EXC") or r2.startswith("EXC")):
            mism += 1
            ctx.violation("reused-components-differ-from-fresh:transpile", {"sql": sql, "read": rd, "write": wr}, {"item": it})
        if it["kind"] == "query":
            key = repr(schema)
            if key not in schemas:
                schemas[key] = MappingSchema(schema, dialect="duckdb")
            out["optimize"] = g(lambda: optimize(sql, schema=schema, dialect="duckdb").sql("duckdb"))
            o2 = g(lambda: optimize(sql, schema=schemas[key], dialect="duckdb").sql("duckdb"))
            ctx.count("fresh_vs_reused_compared")
            if out["optimize"] != o2:
                ctx.violation("reused-schema-differs-from-fresh:optimize", {"sql": sql}, {"item": it})
            out["qualify"] = g(lambda: qualify(sqlglot.parse_one(sql, read="duckdb"), schema=schema, dialect="duckdb").sql("duckdb"))
            out["types"] = g(lambda: [s.type.sql() if s.type is not None else None for s in
                                      annotate_types(qualify(sqlglot.parse_one(sql, read="duckdb"), schema=schema, dialect="duckdb"),
                                                     schema=schema, dialect="duckdb").selects])

            def lin():
                res = lineage(None, sql, schema=schema, dialect="duckdb")
                return [(k, [n.name for n in v.walk()]) for k, v in res.items()]
            out["lineage"] = g(lin)
            if out["optimize"] != h64(sql):
                ctx.nt([it["id"], "optimize"])
        digests[it["id"]] = out
        ctx.count("items_processed")
    component_reuse(ctx, digests)
    custom_dialect_history(ctx, digests)
    case_d, case_mism = case_schema_digests(random.Random(f"{ctx.seed}:C15:caseorder:{ctx.shard}"))
    digests["case-schema"] = case_d
    ctx.count("case_schema_answers", len(case_d))
    for d, it in case_mism[:3]:
        ctx.violation(f"reused-schema-differs-from-fresh:{it[0]}:{d}", {"dialect": d, "item": list(it)}, {"dialect": d, "item": list(it)})
    ctx.extra["digests"] = digests
    ctx.extra["hashseed"] = __import__("os").environ.get("PYTHONHASHSEED")
    ctx.extra["shard"] = ctx.shard
    if ctx.shard == 0 and its:
        ctx.sample({"item": {k: its[0][k] for k in ("sql", "pair", "kind")}, "digests": digests.get(0)})


def cross_check(agg):
    """every (item, API) digest must be the same in every process that computed it"""
    out = []
    ex = agg["extras"]
    if len(ex) < 2:
        return out
    seen = {}      # (item, api) -> (digest, hashseed)
    flagged = set()
    for e in ex:
        for iid, d in e["digests"].items():
            for api, dig in d.items():
                k = (str(iid), api)
                if k not in seen:
                    seen[k] = (dig, e.get("hashseed"))
                elif seen[k][0] != dig:
                    sig_api = api.split(":")[0] if str(iid) in ("reuse-fresh", "case-schema", "dialect-history", "custom-dialects") else api
                    if (str(iid), sig_api) in flagged:
                        continue
                    flagged.add((str(iid), sig_api))
                    name = f"{iid}:{sig_api}" if str(iid) in ("reuse-fresh", "case-schema", "dialect-history", "custom-dialects") else sig_api
                    out.append((f"output-differs-across-processes:{name}",
                                {"item": iid, "api": api, "hashseeds": [seen[k][1], e.get("hashseed")], "digests": [seen[k][0], dig]},
                                {"item_id": iid, "api": api}))
    return out


def conclude(agg):
    c = agg["counters"]
    out = []
    ex = agg["extras"]
    if len(ex) < (8 if agg["tier"] == "quick" else 24):
        out.append(f"only {len(ex)} processes reported digests")
    n = SPEC[agg["tier"]]["items"]
    if c["items_processed"] < 0.9 * n * max(len(ex), 1):
        out.append(f"only {c['items_processed']} item evaluations over {len(ex)} processes (expected {n} each)")
    return out


def coverage_extra(agg):
    ex = agg["extras"]
    return {"processes": len(ex), "hash_seeds": sorted({str(e.get("hashseed")) for e in ex}),
            "digest_maps_compared": max(len(ex) - 1, 0)}

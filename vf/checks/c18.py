"""C18 - schema lookups always reflect the current registrations.

Model-based history check: the harness keeps the plain nested dict of registrations
(own code); every answer of the long-lived MappingSchema is compared with the answer
of MappingSchema(<model>) built fresh at that point.
"""
from __future__ import annotations

import copy
import itertools

LEVEL_TEXT = ("Model-based history monitoring: every answer of a long-lived MappingSchema is compared with a fresh "
              "schema built from the harness' own record of registrations, over all histories up to a length bound "
              "(reduced alphabet) and seeded random histories. Held-on-observed-histories, not a proof.")
LEVEL_TEXT += (' Registrations without a column mapping are part of the histories (the reference schema holds them through a placeholder column that is stripped from its answers).')
LEVEL_NOTE = "trusts MappingSchema.__init__ on a fresh object as the reference; universe of 2 catalogs x 2 dbs x 2 tables x 3 columns"
TECHNIQUE = "runtime monitoring: model-based history checking (live object vs fresh reference after every step)"
RULE = ("histories of add_table/lookups over a small universe; exhaustive over a reduced "
        "alphabet up to a length bound plus seeded random histories; a history is non-trivial "
        "when a lookup that touches a table precedes a registration affecting that lookup; "
        "distinct = distinct (config, operation sequence)")
ASSUMPTIONS = [
    "the reference answer is that of MappingSchema(model) built fresh from the harness' own dict of registrations",
    "registrations spell each table/column name one way per history (lookups vary the spelling), so the model dict is unambiguous",
]
SPEC = {
    "quick": {"shards": 16, "time_cap": 400, "exh_len": 3, "random": 6000},
    "thorough": {"shards": 16, "time_cap": 600, "exh_len": 4, "random": 120000},
}

DIALECTS = [None, "snowflake", "bigquery", "mysql", "duckdb", "postgres", "tsql"]


def _answer(f):
    from sqlglot.errors import SchemaError, SqlglotError

    try:
        return ("ok", f())
    except SchemaError:
        return ("SchemaError",)
    except SqlglotError as e:
        return ("SqlglotError:" + type(e).__name__,)
    except Exception as e:  # internal error: compared like any other answer
        return ("internal:" + type(e).__name__,)


def _do_lookup(s, l):
    from sqlglot import exp

    kind = l[0]
    if kind == "column_names":
        return _answer(lambda: list(s.column_names(l[1])))
    if kind == "has_column":
        return _answer(lambda: bool(s.has_column(l[1], l[2])))
    if kind == "type":
        return _answer(lambda: s.get_column_type(l[1], l[2]).sql())
    if kind == "find":
        def f():
            r = s.find(exp.to_table(l[1], dialect=s.dialect), raise_on_missing=l[2], ensure_data_types=l[3])
            if r is None:
                return None
            return [(k, v if isinstance(v, str) else v.sql()) for k, v in r.items()]
        return _answer(f)
    if kind == "column_names_args":
        # per-call dialect / normalize arguments, through a str and through an exp.Table (memoised per Table)
        def f():
            target = exp.to_table(l[1]) if l[4] else l[1]
            return list(s.column_names(target, dialect=l[2], normalize=l[3]))
        return _answer(f)
    if kind == "has_column_col":
        # through an exp.Column object, quoted or not (the two normalise differently)
        return _answer(lambda: bool(s.has_column(l[1], exp.column(l[2], quoted=l[3]))))
    if kind == "type_col":
        return _answer(lambda: s.get_column_type(l[1], exp.column(l[2], quoted=l[3])).sql())
    if kind == "has_column_args":
        def f():
            target = exp.to_table(l[1]) if l[5] else l[1]
            return bool(s.has_column(target, l[2], dialect=l[3], normalize=l[4]))
        return _answer(f)
    if kind == "column_names_tbl":
        # lookup through an exp.Table object (exercises _normalized_table_cache)
        return _answer(lambda: list(s.column_names(exp.to_table(l[1], dialect=s.dialect))))
    raise AssertionError(kind)


def _set_nested(model, parts, cols):
    d = model
    for p in parts[:-1]:
        d = d.setdefault(p, {})
    d[parts[-1]] = dict(cols)


def _get_nested(model, parts):
    d = model
    for p in parts:
        if not isinstance(d, dict) or p not in d:
            return None
        d = d[p]
    return d


PLACEHOLDER = "zz_none"


def _with_placeholder(model, depth):
    """A table registered without columns cannot be written in a constructor mapping (the constructor needs a column
    to see the nesting depth). The reference schema gives such a table one placeholder column, which is removed from its
    answers again (_strip): visibility and ambiguity are then judged exactly like for any other table."""
    def rec(d, level):
        out = {}
        for k, v in d.items():
            if level == depth:
                out[k] = dict(v) if v else {PLACEHOLDER: "INT"}
            else:
                out[k] = rec(v, level + 1)
        return out
    return rec(model, 1)


def _strip(ans):
    if ans and ans[0] == "ok" and isinstance(ans[1], list):
        return ("ok", [x for x in ans[1] if (x[0] if isinstance(x, (tuple, list)) else x).lower() != PLACEHOLDER])
    return ans


def _fresh(model, dialect, normalize):
    from sqlglot.schema import MappingSchema

    m = _with_placeholder(model, _model_depth(model)) if model else None
    return MappingSchema(m, dialect=dialect, normalize=normalize)


def _spellings(name, rng=None):
    return [name, name.upper(), f'"{name}"']


class Universe:
    def __init__(self, depth, small=False, mixed=False):
        self.depth = depth
        self.cats = ["c1", "c2"]
        self.dbs = ["d1", "d2"]
        self.tabs = ["t", "u"]
        self.cols = ["a", "b"] if small else ["a", "b", "c"]
        if mixed:
            # mixed-case spellings that serve both as table and as column names (dialects such as BigQuery
            # normalise the two roles differently)
            self.dbs = ["Ds1", "ds2"]
            self.tabs = ["Orders", "Region"]
            self.cols = ["Region", "Qty", "Orders"]
        self.types = ["INT", "TEXT"]

    def full_tables(self):
        if self.depth == 1:
            return [(t,) for t in self.tabs]
        if self.depth == 2:
            return [(d, t) for d in self.dbs for t in self.tabs]
        return [(c, d, t) for c in self.cats for d in self.dbs for t in self.tabs]

    def lookup_names(self):
        """fully and partially qualified names."""
        names = set()
        for ft in self.full_tables():
            for k in range(1, len(ft) + 1):
                names.add(".".join(ft[-k:]))
        return sorted(names)

    def all_lookups(self, spell=False):
        out = []
        for n in self.lookup_names():
            out.append(("column_names", n))
            out.append(("find", n, False, False))
            out.append(("find", n, True, True))
            for c in self.cols[:2]:
                out.append(("has_column", n, c))
                out.append(("type", n, c))
            # the same column through Column objects, quoted and unquoted, in both orders across the sweep
            c = self.cols[0]
            for sp in (c, c.upper(), c.capitalize()):
                out.append(("has_column_col", n, sp, True))
                out.append(("type_col", n, sp, False))
                out.append(("has_column_col", n, sp, False))
                out.append(("type_col", n, sp, True))
        return out


def _affects(lookup, parts):
    """Does a registration of table `parts` potentially affect this lookup? (the lookup
    name is a suffix of the table path)"""
    ln = [p.strip('"').lower() for p in lookup[1].split(".")]
    return list(parts[-len(ln):]) == ln


def run_history(ctx, cfg, ops, u, sweep):
    """ops: list of ('add', parts, cols|None) | lookup tuples. Returns first divergence."""
    depth, dialect, normalize = cfg
    model = {}
    try:
        live = _fresh(model, dialect, normalize)
    except Exception as e:
        return ("init", repr(e))
    seen_lookup_targets = []
    nontrivial = False
    for step, op in enumerate(ops):
        if op[0] == "add":
            _, parts, cols = op
            existing = _get_nested(model, parts)
            expected_depth_error = bool(model) and len(parts) != _model_depth(model)
            r = _answer(lambda: live.add_table(".".join(parts), cols))
            ctx.count("add_table_calls")
            if expected_depth_error:
                if r[0] != "SchemaError":
                    return ("add-depth", {"step": step, "op": op, "live": r})
            elif r[0] != "ok":
                return ("add-raised", {"step": step, "op": op, "live": r})
            else:
                if cols or existing is None:
                    if any(_affects(l, parts) for l in seen_lookup_targets):
                        nontrivial = True
                    _set_nested(model, parts, cols or {})
                # add_table(existing, None) is documented as a no-op
        else:
            a = _do_lookup(live, op)
            ctx.count("history_lookups")
            seen_lookup_targets.append(op)
            try:
                fresh = _fresh(model, dialect, normalize)
            except Exception as e:
                return ("fresh-init", {"step": step, "err": repr(e)})
            b = _strip(_do_lookup(fresh, op))
            ctx.count("lookups_compared")
            if a != b:
                return ("lookup", {"step": step, "lookup": op, "live": a, "fresh": b})
    # final sweep: every lookup of the universe, live vs fresh
    try:
        fresh = _fresh(model, dialect, normalize)
    except Exception as e:
        return ("fresh-init", {"step": len(ops), "err": repr(e)})
    for l in sweep:
        a, b = _do_lookup(live, l), _strip(_do_lookup(fresh, l))
        ctx.count("lookups_compared")
        if a != b:
            return ("lookup", {"step": len(ops), "lookup": l, "live": a, "fresh": b})
    if _canon_mapping(live.mapping) != _canon_mapping(fresh.mapping):
        return ("mapping", {"live": repr(live.mapping)[:300], "fresh": repr(fresh.mapping)[:300]})
    if nontrivial:
        ctx.nt([cfg, ops])
    return None


def _model_depth(model):
    d, n = model, 0
    while isinstance(d, dict) and d:
        v = next(iter(d.values()))
        if not isinstance(v, dict):
            break
        d, n = v, n + 1
    return n


def _canon_mapping(m):
    if isinstance(m, dict):
        return {k: _canon_mapping(v) for k, v in m.items() if k.lower() != PLACEHOLDER}
    return m if isinstance(m, str) else getattr(m, "sql", lambda: repr(m))()


def _sig(kind, info):
    if kind == "lookup":
        return f"stale:{info['lookup'][0]}:live={info['live'][0]}:fresh={info['fresh'][0]}"
    return f"history:{kind}"


def _report(ctx, cfg, ops, res):
    kind, info = res
    ctx.violation(_sig(kind, info), info, {"config": {"depth": cfg[0], "dialect": cfg[1], "normalize": cfg[2]}, "ops": ops})


def worker(ctx):
    spec = SPEC[ctx.tier]
    # ---- (1) exhaustive histories over a reduced alphabet -----------------------
    u2 = Universe(2, small=True)
    adds = [
        ("add", ("d1", "t"), {"a": "INT"}),
        ("add", ("d1", "t"), {"b": "TEXT"}),
        ("add", ("d2", "t"), {"a": "TEXT"}),
        ("add", ("d1", "u"), {"a": "INT"}),
        ("add", ("d1", "t"), None),
    ]
    looks = [
        ("column_names", "t"), ("column_names", "d1.t"), ("type", "t", "a"), ("has_column", "t", "b"),
        ("find", "t", False, True), ("column_names", "T"), ("column_names_tbl", "t"),
    ]
    alphabet = adds + looks
    sweep2 = u2.all_lookups()
    configs = [(2, d, n) for d in (None, "snowflake", "mysql") for n in (True, False)]
    hist_id = 0
    exh_total = 0
    for L in range(1, spec["exh_len"] + 1):
        for ops in itertools.product(alphabet, repeat=L):
            if ops[0][0] != "add":
                continue  # a lookup on an empty schema first adds nothing new beyond its suffix histories
            # add_table(x, None) is only generated as the documented no-op on a registered table
            # (on an unknown table it creates a column-less table that no fresh schema can hold)
            reg, ok, with_cols = set(), True, False
            for o in ops:
                if o[0] == "add":
                    if o[2] is None and o[1] not in reg and not with_cols:
                        # a column-less registration in a schema without any columns leaves the nesting depth
                        # undefined; once one table has columns it is just another table (reference: _with_placeholder)
                        ok = False
                        break
                    reg.add(o[1])
                    with_cols = with_cols or bool(o[2])
            if not ok:
                continue
            for cfg in configs:
                hist_id += 1
                if hist_id % ctx.nshards != ctx.shard:
                    continue
                exh_total += 1
                ctx.count("evaluations")
                ctx.count("exhaustive_histories")
                res = run_history(ctx, cfg, list(ops), u2, sweep2)
                if res:
                    _report(ctx, cfg, list(ops), res)
    ctx.extra["exhaustive_len"] = spec["exh_len"]
    # ---- (2) random histories -----------------------------------------------------
    n_random = spec["random"]
    for i in ctx.mine(n_random):
        if ctx.expired():
            break
        rng = ctx.case_rng(i)
        depth = rng.choice([1, 2, 2, 3])
        u = Universe(depth, mixed=rng.random() < 0.3)
        cfg = (depth, rng.choice(DIALECTS), rng.random() < 0.75)
        ops = []
        tables = u.full_tables()
        names = u.lookup_names()
        for _ in range(rng.randint(2, 40 if ctx.tier == "thorough" else 14)):
            r = rng.random()
            if r < 0.4:
                parts = rng.choice(tables)
                if rng.random() < 0.06:
                    # wrong depth registration: must raise once the schema is non-empty
                    parts = parts[1:] if len(parts) > 1 else ("d1",) + parts
                cols = {c: rng.choice(u.types) for c in rng.sample(u.cols, rng.randint(1, len(u.cols)))}
                if rng.random() < 0.08:
                    cols = None
                ops.append(("add", tuple(parts), cols))
            else:
                n = rng.choice(names)
                if rng.random() < 0.3:
                    n = ".".join(rng.choice(_spellings(p)) for p in n.split("."))
                k = rng.random()
                if k < 0.3:
                    ops.append(("column_names", n))
                elif k < 0.5:
                    ops.append(("has_column", n, rng.choice(_spellings(rng.choice(u.cols)))))
                elif k < 0.7:
                    ops.append(("type", n, rng.choice(u.cols)))
                elif k < 0.9:
                    ops.append(("find", n, rng.random() < 0.5, rng.random() < 0.5))
                elif k < 0.93:
                    ops.append(("column_names_tbl", n))
                elif k < 0.96:
                    ops.append((rng.choice(["has_column_col", "type_col"]), n, rng.choice([str.lower, str.upper, str.capitalize, str])(rng.choice(u.cols)), rng.random() < 0.5))
                elif rng.random() < 0.5:
                    ops.append(("column_names_args", n, rng.choice([None, "snowflake", "duckdb", "mysql"]), rng.choice([None, True, False]), rng.random() < 0.6))
                else:
                    ops.append(("has_column_args", n, rng.choice(u.cols), rng.choice([None, "snowflake", "duckdb"]), rng.choice([None, True]), rng.random() < 0.6))
        if not any(o[0] == "add" and o[2] for o in ops):
            continue
        # an add_table(x, None) for a table never registered would create a column-less table that
        # a fresh MappingSchema refuses to build: keep only no-op uses
        seen, with_cols = set(), False
        clean = []
        for o in ops:
            if o[0] == "add":
                if o[2] is None and o[1] not in seen and not (with_cols and len(o[1]) == depth):
                    continue
                if len(o[1]) == depth:
                    seen.add(o[1])
                    with_cols = with_cols or bool(o[2])
            clean.append(o)
        ctx.count("evaluations")
        ctx.count("random_histories")
        res = run_history(ctx, cfg, clean, u, u.all_lookups())
        if res:
            _report(ctx, cfg, clean, res)
        elif i % 997 == 0:
            ctx.sample({"config": cfg, "ops": clean[:12]})
    ctx.sample({"config": configs[0], "ops": [adds[0], looks[0], adds[2], looks[0]]})


def conclude(agg):
    c = agg["counters"]
    out = []
    if c["exhaustive_histories"] < 1000:
        out.append("fewer than 1000 exhaustive histories ran")
    if c["lookups_compared"] < 50000:
        out.append("fewer than 50000 lookups were compared with the fresh model")
    if c["add_table_calls"] < 1000:
        out.append("add_table was reached fewer than 1000 times")
    return out


def coverage_extra(agg):
    ex = agg["extras"][0] if agg["extras"] else {}
    return {"exhaustive_part": f"all histories up to length {ex.get('exhaustive_len')} over a 12-letter alphabet "
                               "(5 registrations, 7 lookups) x 6 configurations, starting with a registration"}


def replay(rec):
    from ..runner import ReplayCtx

    ctx = ReplayCtx()
    cfg = rec["case"]["config"]
    ops = [tuple(tuple(x) if isinstance(x, list) else x for x in o) for o in rec["case"]["ops"]]
    u = Universe(cfg["depth"], mixed=any("Orders" in str(o) or "Region" in str(o) for o in ops))
    res = run_history(ctx, (cfg["depth"], cfg["dialect"], cfg["normalize"]), ops, u, u.all_lookups())
    if res:
        _report(ctx, (cfg["depth"], cfg["dialect"], cfg["normalize"]), ops, res)
    return ctx.report()

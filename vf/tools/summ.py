"""python -m vf.tools.summ C11  -> short summary of evidence/C11.json and its replays"""
import json, sys, os, glob
pid=sys.argv[1]
ev=json.load(open(f'/verif/evidence/{pid}.json'))
c=ev['coverage']
print(pid, c['verdict'], 'eval',c['evaluations'],'nt',c['distinct_nontrivial'],'wall',ev['wall_s'])
print(' known:',c['known_findings_reproduced'])
print(' viol by sig:',c['violating_observations_by_signature'])
print(' inconclusive:',c['inconclusive_reasons'])
print(' counters:',{k:v for k,v in c['counters'].items() if not k.startswith('tag:')})

"""developer tool: python -m vf.tools.mkmeta <seed-name> <round> <caught_by,comma> <needs> <detection_history>  (reads eval_a.json / eval_b.json)"""
import json, os, sys

name, rnd, caught, needs, hist = sys.argv[1:6]
d = f"/verif/seeded/{name}"
a = json.load(open(f"{d}/eval_a.json"))
b = json.load(open(f"{d}/eval_b.json")) if os.path.exists(f"{d}/eval_b.json") else {}
pid = name.split("-")[0][:3]
meta = {"property": pid, "breaks": pid, "round": int(rnd), "needs_to_manifest": needs,
        "origin": "independent sub-agent given the property text, one-line names of the earlier changes to avoid, and a scratch worktree",
        "confirmed_by_me": {"demo_exit_with_change": a["demo_exit_with_change"], "demo_exit_without_change": a["demo_exit_without_change"],
                            "test_suite_with_change": a["tests_with_change"],
                            "how": "vf/tools/seed_eval_a.sh (demo with/without the change, full pytest suite with the change, in the scratch worktree) and "
                                   "vf/tools/seed_eval_b.sh (patch applied to /repo, quick tier of the listed checks, patch reverted)",
                            "last_quick_run_with_change": b.get("checks", "").strip()},
        "caught_by": [c for c in caught.split(",") if c], "detection_history": hist}
json.dump(meta, open(f"{d}/meta.json", "w"), indent=1)
for f in ("eval_a.json", "eval_b.json"):
    if os.path.exists(f"{d}/{f}"):
        os.remove(f"{d}/{f}")
print("wrote", f"{d}/meta.json")

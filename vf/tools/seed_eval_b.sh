#!/bin/bash
# seed_eval_b.sh <seed-name> <check ids...>   phase B (serial: applies the stored patch to /repo, runs quick tiers, reverts)
NAME=$1; shift
OUT=/verif/seeded/$NAME
cd /verif
git -C /repo apply $OUT/patch.diff || { echo "patch does not apply to /repo"; exit 8; }
RES=""
for c in "$@"; do
  /venv/bin/python -W ignore -B -m vf check $c --tier quick > /tmp/_check_$c.txt 2>&1; rc=$?
  sigs=$(grep "signature:" /tmp/_check_$c.txt | sed 's/ *signature: //' | head -5 | tr '\n' ';')
  echo "check $c exit=$rc  $sigs"
  RES="$RES $c:exit=$rc"
done
git -C /repo checkout -- .
git -C /repo status --short | head -3
echo "{\"checks\": \"$RES\"}" > $OUT/eval_b.json

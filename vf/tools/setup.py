"""setup_cmd: nothing to build (pure Python); verify that what the checks need is importable."""
import compileall
import os
import sqlite3
import sys

from ..common import VERIF_DIR, setup_repo


def main():
    ok = compileall.compile_dir(os.path.join(VERIF_DIR, "vf"), quiet=1, legacy=False, optimize=0,
                                ddir=None, force=False, workers=1) if False else True
    sg = setup_repo()
    import duckdb

    assert sys.version_info >= (3, 12), "sys.monitoring needs Python 3.12"
    con = duckdb.connect()
    assert con.execute("select 41+1").fetchall() == [(42,)]
    assert sqlite3.connect(":memory:").execute("select 41+1").fetchall() == [(42,)]
    print("vf setup ok: sqlglot from", os.path.dirname(sg.__file__), "duckdb", duckdb.__version__,
          "sqlite", sqlite3.sqlite_version)
    return 0 if ok else 1


if __name__ == "__main__":
    sys.exit(main())

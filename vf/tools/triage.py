"""Developer tool: shrink failing cases of the engine-level checks to their mechanism.
   python -m vf.tools.triage C03 0 2400 [json feats]"""
import collections
import json
import random
import sys
import warnings

warnings.simplefilter("ignore")


class FakeCtx:
    def __init__(self):
        self.v = []
        self.counters = collections.Counter()
        self.tier = "quick"

    def count(self, k, n=1):
        self.counters[k] += n

    def nt(self, k):
        pass

    def sample(self, o, cap=4):
        pass

    def violation(self, sig, detail, case=None):
        self.v.append((sig, detail))


def main():
    from ..common import setup_repo

    setup_repo()
    from ..gen import sqlgen, shrink
    from ..oracle.engines import Engines

    prop, lo, hi = sys.argv[1], int(sys.argv[2]), int(sys.argv[3])
    import importlib

    mod = importlib.import_module(f"vf.checks.{prop.lower()}")
    feats = dict(mod.FEATS)
    if len(sys.argv) > 4:
        feats.update(json.loads(sys.argv[4]))
    import os
    seed = int(os.environ.get("VERIF_SEED", "0"))
    nfail = 0
    for i in range(lo, hi):
        rng = random.Random(f"{seed}:{prop}:case:{i}")
        tables, data, q = mod.gen_case(rng, feats)

        def sigs(q, data):
            ctx = FakeCtx()
            mod.check_case(ctx, q, tables, data)
            return ctx.v

        v = sigs(q, data)
        if not v:
            continue
        nfail += 1
        sig0 = v[0][0]

        def fails(q2, d2):
            return any(s == sig0 for s, _ in sigs(q2, d2))

        q2, d2, steps = shrink.shrink(q, data, fails)
        v2 = [x for x in sigs(q2, d2) if x[0] == sig0]
        det = v2[0][1] if v2 else {}
        print(i, sig0)
        print("   ", q2.render("duckdb"))
        for k in ("optimized", "what", "executor", "engines", "error"):
            if k in det:
                print("    ", k, "=", json.dumps(det[k], default=repr)[:600])
        print("     data", {k: v for k, v in d2.items() if v})
    print("failures", nfail)


if __name__ == "__main__":
    main()

"""Regenerate MANIFEST.json from the metadata of the check modules (python -m vf.tools.mkmanifest)."""
import importlib
import json
import os
import sys

from ..common import VERIF_DIR

ALL = [f"C{i:02d}" for i in range(1, 21)]
BASELINE = ("cd /repo && /venv/bin/python -m pytest -ra -q -p no:cacheprovider --timeout=900 "
            "--continue-on-collection-errors")
PENDING_REASON = "check not built yet in this session (the design in DESIGN.md section 4 covers it with runtime monitoring)"


def main():
    checks, na = [], []
    for pid in ALL:
        path = os.path.join(VERIF_DIR, "vf", "checks", pid.lower() + ".py")
        mod = importlib.import_module(f"vf.checks.{pid.lower()}") if os.path.exists(path) else None
        if mod is None or not getattr(mod, "REGISTERED", True):
            na.append({"property_id": pid, "reason": getattr(mod, "NA_REASON", PENDING_REASON)})
            continue
        checks.append({
            "property_id": pid,
            "quick_cmd": f"/venv/bin/python -B -m vf check {pid} --tier quick",
            "thorough_cmd": f"/venv/bin/python -B -m vf check {pid} --tier thorough",
            "evidence_file": f"/verif/evidence/{pid}.json",
            "replay_cmd_template": "/venv/bin/python -B -m vf replay {path}",
            "engine": "vf",
            "level_claimed": {
                "category": "exploration",
                "text": mod.LEVEL_TEXT,
                "design_ref": f"DESIGN.md section 4, {pid}",
            },
            "level_note": mod.LEVEL_NOTE,
            "technique": mod.TECHNIQUE,
        })
    man = {
        "version": 1,
        "setup_cmd": "/venv/bin/python -B -m vf.tools.setup",
        "hooks": {
            "guard": "SQLGLOT_VERIF",
            "enable": "no source hooks: monitors are installed at run time by the harness (class-attribute wrapping, "
                      "module-global rebinding, sys.monitoring); workers import /repo's working tree with "
                      "SQLGLOT_VERIF=1 set, which the library does not read",
            "baseline_off_cmd": BASELINE,
            "source_commits": [],
            "add_only": True,
        },
        "engines": [{
            "name": "vf", "path": "/verif/vf",
            "serves_properties": [c["property_id"] for c in checks],
            "kind_free_text": "runtime monitoring: generated/hostile workloads drive the real library in fresh "
                              "interpreters while per-property monitors and independent oracles decide each observation",
        }],
        "checks": checks,
        "not_applicable": na,
        "notes": "Every check: exit 0 held / exit 1 + VIOLATION line / exit 2 + INCONCLUSIVE line (deciding monitor "
                 "not reached). Known findings: /verif/KNOWN_FINDINGS.txt. Seeded breaks: /verif/seeded/.",
    }
    with open(os.path.join(VERIF_DIR, "MANIFEST.json"), "w") as f:
        json.dump(man, f, indent=1)
        f.write("\n")
    print(f"claimed {len(checks)} not_applicable {len(na)}")


if __name__ == "__main__":
    sys.exit(main())

#!/bin/bash
# seed_eval_a.sh <worktree> <seed-name>   phase A (parallelisable, touches only the worktree): demo with/without, full suite with the change
WT=$1; NAME=$2
OUT=/verif/seeded/$NAME
mkdir -p $OUT
cp $WT/_seed/patch.diff $WT/_seed/demo.py $OUT/ 2>/dev/null
cp $WT/_seed/notes.md $OUT/agent_notes.md 2>/dev/null
cd $WT
git checkout -- sqlglot; git apply _seed/patch.diff || exit 9
/venv/bin/python _seed/demo.py >$OUT/.demo_with.txt 2>&1; W=$?
git apply -R _seed/patch.diff
/venv/bin/python _seed/demo.py >$OUT/.demo_without.txt 2>&1; WO=$?
git apply _seed/patch.diff
T=$(/venv/bin/python -m pytest -q -p no:cacheprovider -n 6 --timeout=900 2>&1 | tail -1)
echo "$NAME demo with=$W without=$WO tests: $T"
echo "{\"demo_exit_with_change\": $W, \"demo_exit_without_change\": $WO, \"tests_with_change\": \"$T\"}" > $OUT/eval_a.json
rm -f $OUT/.demo_with.txt $OUT/.demo_without.txt

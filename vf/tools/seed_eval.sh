#!/bin/bash
# seed_eval.sh <worktree> <seed-name> <check ids...>   (developer tool: validates a seeded break and runs checks against it)
WT=$1; NAME=$2; shift 2
OUT=/verif/seeded/$NAME
mkdir -p $OUT
cp $WT/_seed/patch.diff $WT/_seed/demo.py $OUT/ 2>/dev/null
cp $WT/_seed/notes.md $OUT/agent_notes.md 2>/dev/null
cd $WT
git diff -- sqlglot > /tmp/_cur.diff
if ! diff -q /tmp/_cur.diff _seed/patch.diff >/dev/null; then echo "NOTE: worktree diff differs from patch.diff; re-applying"; git checkout -- sqlglot; git apply _seed/patch.diff || exit 9; fi
/venv/bin/python _seed/demo.py >/tmp/_demo_with.txt 2>&1; W=$?
git apply -R _seed/patch.diff   # (not git stash: the stash is shared by all worktrees)
/venv/bin/python _seed/demo.py >/tmp/_demo_without.txt 2>&1; WO=$?
git apply _seed/patch.diff
echo "demo exit with change: $W   without change: $WO"
T=$(/venv/bin/python -m pytest -q -p no:cacheprovider -n 8 --timeout=900 2>&1 | tail -1)
echo "tests with change: $T"
cd /verif
git -C /repo apply $OUT/patch.diff || { echo "patch does not apply to /repo"; exit 8; }
RES=""
for c in "$@"; do
  /venv/bin/python -W ignore -B -m vf check $c --tier quick > /tmp/_check_$c.txt 2>&1; rc=$?
  sigs=$(grep "signature:" /tmp/_check_$c.txt | sed 's/ *signature: //' | head -5 | tr '\n' ';')
  echo "check $c exit=$rc  $sigs"
  RES="$RES $c:exit=$rc"
done
git -C /repo checkout -- .
git -C /repo status --short | head -3
echo "{\"demo_exit_with_change\": $W, \"demo_exit_without_change\": $WO, \"tests_with_change\": \"$T\", \"checks\": \"$RES\"}" > $OUT/eval.json

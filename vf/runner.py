"""Driver / worker plumbing: sharding, subprocess workers, watchdogs, verdicts, evidence."""
from __future__ import annotations

import collections
import importlib
import json
import os
import random
import subprocess
import sys
import tempfile
import time

from .common import VERIF_DIR, REPO, h64
from . import findings

NCPU = min(16, os.cpu_count() or 4)


# ---------------------------------------------------------------------------------
# worker side
# ---------------------------------------------------------------------------------


class Ctx:
    def __init__(self, prop, tier, seed, shard, nshards, time_cap, out):
        self.prop, self.tier, self.seed, self.shard, self.nshards = prop, tier, seed, shard, nshards
        self.rng = random.Random(f"{seed}:{prop}:{shard}")
        self.counters = collections.Counter()
        self.nontrivial = set()
        self.samples = []
        self.extra = {}
        self.t0 = time.time()
        self.deadline = self.t0 + time_cap
        self.truncated = False
        self._out = out
        self._viol_seen = collections.Counter()

    # -- bookkeeping -----------------------------------------------------------
    def count(self, key, n=1):
        self.counters[key] += n

    def nt(self, key):
        """Register one distinct non-trivial case (by its defining key)."""
        self.nontrivial.add(h64(key))

    def sample(self, obj, cap=4):
        if len(self.samples) < cap:
            self.samples.append(obj)

    def mine(self, n_total):
        """Indices of the cases of this shard out of n_total."""
        return range(self.shard, n_total, self.nshards)

    def expired(self):
        if time.time() > self.deadline:
            self.truncated = True
            return True
        return False

    def case_rng(self, i):
        return random.Random(f"{self.seed}:{self.prop}:case:{i}")

    # -- records ---------------------------------------------------------------
    def _emit(self, rec):
        self._out.write(json.dumps(rec, default=repr) + "\n")
        self._out.flush()

    def violation(self, sig, detail, case=None):
        """Report a violating observation. `sig` is the behaviour-level signature
        (matched against KNOWN_FINDINGS.txt by the driver)."""
        self._viol_seen[sig] += 1
        self.count("violating_observations")
        if self._viol_seen[sig] <= 3:
            self._emit({"t": "viol", "sig": sig, "detail": detail, "case": case})

    def finish(self):
        self._emit(
            {
                "t": "done",
                "counters": dict(self.counters),
                "nt": sorted(self.nontrivial),
                "samples": self.samples,
                "extra": self.extra,
                "truncated": self.truncated,
                "viol_counts": dict(self._viol_seen),
                "wall": time.time() - self.t0,
            }
        )


def worker_main(prop, tier, seed, shard, nshards, time_cap):
    from .common import setup_repo

    setup_repo()
    mod = importlib.import_module(f"vf.checks.{prop.lower()}")
    ctx = Ctx(prop, tier, seed, shard, nshards, time_cap, sys.stdout)
    mod.worker(ctx)
    ctx.finish()
    return 0


# ---------------------------------------------------------------------------------
# driver side
# ---------------------------------------------------------------------------------


def _spawn(prop, tier, seed, shard, nshards, time_cap, env_extra=None):
    env = dict(os.environ)
    env.setdefault("PYTHONHASHSEED", "0")
    env["PYTHONDONTWRITEBYTECODE"] = "1"
    env["VF_REPO"] = REPO
    env["PYTHONPATH"] = REPO + os.pathsep + VERIF_DIR
    if env_extra:
        env.update(env_extra)
    errf = tempfile.TemporaryFile(mode="w+")
    p = subprocess.Popen(
        [sys.executable, "-B", "-m", "vf", "worker", prop, "--tier", tier, "--seed", str(seed),
         "--shard", str(shard), "--of", str(nshards), "--time-cap", str(time_cap)],
        cwd=VERIF_DIR, env=env, stdout=subprocess.PIPE, stderr=errf, text=True,
    )
    p._errf = errf
    return p


def run_check(prop, tier, seed):
    t0 = time.time()
    mod = importlib.import_module(f"vf.checks.{prop.lower()}")
    spec = mod.SPEC[tier]
    nshards = spec.get("shards", NCPU)
    time_cap = spec.get("time_cap", 120)
    kill_after = time_cap * 1.5 + 60

    pending = list(range(nshards))
    running = {}
    results = {}
    viols = []
    problems = []
    shard_env = getattr(mod, "shard_env", None)

    import selectors

    sel = selectors.DefaultSelector()
    bufs = {}

    def start(shard):
        env_extra = shard_env(tier, seed, shard, nshards) if shard_env else None
        p = _spawn(prop, tier, seed, shard, nshards, time_cap, env_extra)
        running[shard] = (p, time.time())
        os.set_blocking(p.stdout.fileno(), False)
        sel.register(p.stdout, selectors.EVENT_READ, shard)
        bufs[shard] = ""

    def handle_line(shard, line):
        line = line.strip()
        if not line.startswith("{"):
            return
        try:
            rec = json.loads(line)
        except ValueError:
            return
        if rec.get("t") == "viol":
            rec["shard"] = shard
            viols.append(rec)
        elif rec.get("t") == "done":
            results[shard] = rec

    while pending or running:
        while pending and len(running) < NCPU:
            start(pending.pop(0))
        events = sel.select(timeout=1.0)
        for key, _ in events:
            shard = key.data
            try:
                chunk = key.fileobj.read()
            except (BlockingIOError, TypeError):
                chunk = None
            if chunk:
                bufs[shard] += chunk
                while "\n" in bufs[shard]:
                    line, bufs[shard] = bufs[shard].split("\n", 1)
                    handle_line(shard, line)
        now = time.time()
        for shard, (p, ts) in list(running.items()):
            rc = p.poll()
            if rc is None and now - ts > kill_after:
                p.kill()
                p.wait()
                rc = "killed"
            if rc is not None:
                try:
                    rest = p.stdout.read()
                except Exception:
                    rest = None
                if rest:
                    bufs[shard] += rest
                for line in bufs[shard].split("\n"):
                    handle_line(shard, line)
                sel.unregister(p.stdout)
                p.stdout.close()
                del running[shard]
                if shard not in results:
                    p._errf.seek(0)
                    err = p._errf.read()[-1500:]
                    problems.append(f"shard {shard} ended without result (rc={rc}): {err.strip()[-600:]}")
                p._errf.close()

    # ---- aggregate ---------------------------------------------------------------
    counters = collections.Counter()
    nontrivial = set()
    samples = []
    extras = []
    truncated = 0
    viol_counts = collections.Counter()
    for shard in sorted(results):
        r = results[shard]
        counters.update(r["counters"])
        nontrivial.update(r["nt"])
        for s in r["samples"]:
            if len(samples) < 8:
                samples.append(s)
        if r.get("extra"):
            extras.append(r["extra"])
        truncated += 1 if r.get("truncated") else 0
        viol_counts.update(r.get("viol_counts", {}))

    agg = {
        "counters": counters, "nontrivial": nontrivial, "samples": samples, "extras": extras,
        "truncated_shards": truncated, "nshards": nshards, "tier": tier, "seed": seed,
    }

    # checks whose oracle compares what different worker processes observed (C15, C19) decide here
    if hasattr(mod, "cross_check"):
        for sig, detail, case in mod.cross_check(agg) or []:
            viols.append({"t": "viol", "sig": sig, "detail": detail, "case": case, "shard": -1})
            viol_counts[sig] += 1

    known = findings.load()
    by_sig = collections.OrderedDict()
    for v in viols:
        by_sig.setdefault(v["sig"], v)
    unknown, known_hit = [], []
    for sig, v in by_sig.items():
        if (prop, sig) in known:
            known_hit.append((sig, known[(prop, sig)]))
        else:
            unknown.append(v)

    inconclusive = list(problems)
    if hasattr(mod, "conclude"):
        inconclusive += list(mod.conclude(agg) or [])
    lost = nshards - len(results)
    if lost:
        inconclusive.append(f"{lost} of {nshards} shards produced no result")

    # ---- report -------------------------------------------------------------------
    for sig, desc in known_hit:
        print(f"KNOWN-FINDING: property={prop} key={sig} :: {desc}")
    replay_dir = os.path.join(VERIF_DIR, "replays")
    for v in unknown[:20]:
        os.makedirs(replay_dir, exist_ok=True)
        path = os.path.join(replay_dir, f"{prop}-{h64(v['sig'])}.json")
        with open(path, "w") as f:
            json.dump({"property": prop, "sig": v["sig"], "detail": v["detail"], "case": v["case"],
                       "tier": tier, "seed": seed}, f, indent=1, default=repr)
        print(f"VIOLATION property={prop} replay={path}")
        print(f"  signature: {v['sig']}")
        print(f"  detail: {json.dumps(v['detail'], default=repr)[:700]}")

    evaluations = int(counters.get("evaluations", 0))
    coverage = {
        "evaluations": evaluations,
        "distinct_nontrivial": len(nontrivial),
        "rule": getattr(mod, "RULE", ""),
        "samples": samples or ["<no sample recorded>"],
        "exhaustive": False,
        "counters": {k: counters[k] for k in sorted(counters)},
        "shards": nshards,
        "shards_truncated_by_time_cap": truncated,
        "known_findings_reproduced": [s for s, _ in known_hit],
        "unlisted_violation_signatures": [v["sig"] for v in unknown][:50],
        "violating_observations_by_signature": dict(viol_counts),
        "inconclusive_reasons": inconclusive,
    }
    if hasattr(mod, "coverage_extra"):
        coverage.update(mod.coverage_extra(agg) or {})
    verdict = "violated" if unknown else ("inconclusive" if inconclusive else "held")
    coverage["verdict"] = verdict
    ev = {
        "property_id": prop, "tier": tier, "seed": seed, "level": "exploration",
        "coverage": coverage,
        "assumptions": list(getattr(mod, "ASSUMPTIONS", [])),
        "wall_s": round(time.time() - t0, 2),
        "violations": len(unknown),
    }
    os.makedirs(os.path.join(VERIF_DIR, "evidence"), exist_ok=True)
    with open(os.path.join(VERIF_DIR, "evidence", f"{prop}.json"), "w") as f:
        json.dump(ev, f, indent=1, default=repr)
        f.write("\n")

    print(f"{prop} tier={tier} seed={seed}: {verdict}; evaluations={evaluations} "
          f"distinct_nontrivial={len(nontrivial)} known_findings={len(known_hit)} "
          f"unlisted_violations={len(unknown)} wall={ev['wall_s']}s")
    if unknown:
        return 1
    if inconclusive:
        for r in inconclusive:
            print(f"INCONCLUSIVE property={prop} reason={r}")
        return 2
    return 0


# ---------------------------------------------------------------------------------
# replay support
# ---------------------------------------------------------------------------------


class ReplayCtx:
    """ctx stand-in used by `python -m vf replay <file>`: collects what the check would report"""

    def __init__(self, tier="quick", seed=0):
        self.v = []
        self.counters = collections.Counter()
        self.tier, self.seed, self.shard, self.nshards = tier, seed, 0, 1
        self.extra = {}

    def count(self, k, n=1):
        self.counters[k] += n

    def nt(self, k):
        pass

    def sample(self, *a, **k):
        pass

    def expired(self):
        return False

    def violation(self, sig, detail, case=None):
        self.v.append((sig, detail))

    def report(self, want_sig=None):
        for sig, detail in self.v:
            print(f"reproduced: {sig}")
            print("  " + json.dumps(detail, default=repr)[:1200])
        if not self.v:
            print("not reproduced: the check reports nothing for this case on the current tree")
        return 1 if self.v else 0

"""Core-grammar statements for the text-level checks (portable SQL text, independent of sqlglot)."""
from __future__ import annotations

from . import sqlgen
from .sqlgen import INT, TEXT

TEXT_FEATS = dict(div=True, mod=True, window=True, setops_all=False, any_sub=False, semi_anti=False,
                  ts=False, strftime=False, casts=True, like=True, ifnull=False, nulls_order=True,
                  unqualified=0.4, redundant_parens=0.15, cte_cols=False, join_no_on=0.12)

CAST_FORMATS = ["'9,999'", "'fm'", "'999D99'", "'YYYY'"]
CAST_TYPES = ["INT", "BIGINT", "SMALLINT", "DECIMAL(10, 2)", "VARCHAR(10)", "VARCHAR", "TEXT", "DOUBLE", "FLOAT",
              "DATE", "TIMESTAMP", "BOOLEAN", "CHAR(3)"]
# used only where type-name idempotence is not the subject (serialisation, purity, structure): user-defined and nested types
WIDE_TYPES = CAST_TYPES + ["my_schema.my_type", "my_enum", "ARRAY<INT>", "MAP<TEXT, INT>", "STRUCT<a INT, b TEXT>", "TIMESTAMPTZ", "INT[]",
                           "NUMERIC(38, 0)", "INTERVAL", "JSON", "UUID", "BINARY", "TINYINT", "REAL"]
_TYPES = {"list": CAST_TYPES}
LITERALS = ["0", "1", "42", "1.5", "0.25", "10.0", "1e3", "2.5E-2", "'abc'", "''", "'it''s'", "'a b'", "'%x_'", "NULL", "TRUE",
            "FALSE", "'2020-01-02'", "-1", "123456789012"]


# literal kinds that only some dialects read (the others reject the statement, which removes the pair)
EXOTIC_LITERALS = [
    "x'AB01'", "X'00'", "0xFF", "b'0101'", "N'abc'", "N'a''b'", r"U&'d\0061t\+000061'", "U&'line1\nline2'", "U&'q''uote'",
    r"E'a\nb'", r"E'tab\there'", r"e'it\'s'", "$$dollar 'quoted'$$", "$tag$x$tag$", r"r'raw\n'", r"R'C:\dir'", "'''triple'''",
    "'multi\nline'", "'tab\there'", r"'back\\slash'", "DATE '2020-01-02'", "TIMESTAMP '2020-01-02 03:04:05'",
    "INTERVAL '1' DAY", "INTERVAL '2' MONTH", "1.", ".5", "1e-3", "1_000", "0b101", "'é日本😀'", "''''", "N'multi\nline'",
    "U&'d!0061t' UESCAPE '!'", "U&'x#2603' UESCAPE '#'",
]


def extra_expr(rng, g, scope, d=2):
    """expression kinds beyond the typed engine fragment (text level only)"""
    r = rng.random()
    col = lambda: sqlgen.render(g.colref(scope, rng.choice([INT, TEXT])) or ("lit", 1, INT))
    if d <= 0 or r < 0.25:
        if rng.random() < 0.25:
            return rng.choice(EXOTIC_LITERALS)
        return rng.choice(LITERALS) if rng.random() < 0.5 else col()
    sub = lambda: extra_expr(rng, g, scope, d - 1)
    if r < 0.4:
        c = rng.random()
        if c < 0.7:
            return f"CAST({sub()} AS {rng.choice(_TYPES['list'])})"
        # the other forms the base grammar's CAST accepts (non-temporal targets: temporal ones become parse functions)
        ty = rng.choice(["INT", "DECIMAL(10, 2)", "VARCHAR", "BIGINT", "DOUBLE"])
        if c < 0.76:
            return f"TRY_CAST({sub()} AS {ty})"
        if c < 0.82:
            return f"{col()}::{ty}"
        dflt = f" DEFAULT {rng.choice(['0', 'NULL', '-1'])} ON CONVERSION ERROR" if c < 0.94 else ""
        fmt = f" FORMAT {rng.choice(CAST_FORMATS)}" if c >= 0.88 else ""
        return f"CAST({sub()} AS {ty}{dflt}{fmt})"
    if r < 0.5:
        return f"CASE {col()} WHEN {rng.choice(LITERALS)} THEN {sub()} ELSE {sub()} END"
    if r < 0.6:
        return f"{col()} {rng.choice(['+', '-', '*', '/'])} {rng.choice(['1', '2', '0.5', '10'])}"
    if r < 0.68:
        return f"COALESCE({sub()}, {sub()})"
    if r < 0.75:
        fn = rng.choice(["SUM", "MIN", "MAX", "AVG", "COUNT"])
        return f"{fn}({col()}) OVER (PARTITION BY {col()} ORDER BY {col()}{rng.choice(['', ' DESC'])})"
    if r < 0.8:
        return f"ROW_NUMBER() OVER (ORDER BY {col()})"
    if r < 0.86:
        return f"({sub()})"
    if r < 0.92:
        return f"NOT {col()} IN ({rng.choice(LITERALS)}, {rng.choice(LITERALS)})"
    return f"{col()} BETWEEN {rng.choice(['0', '1'])} AND {rng.choice(['5', '10'])} AND {col()} IS NOT NULL"


def gen_statement(rng, tables=None, feats=None, wide_types=False):
    """-> (sql, kind)"""
    _TYPES["list"] = WIDE_TYPES if wide_types else CAST_TYPES
    try:
        return _gen_statement(rng, tables, feats)
    finally:
        _TYPES["list"] = CAST_TYPES


def _gen_statement(rng, tables=None, feats=None):
    tables = tables or sqlgen.gen_schema(rng)
    f = dict(TEXT_FEATS)
    if feats:
        f.update(feats)
    g = sqlgen.Gen(rng, tables, f)
    r = rng.random()
    if r < 0.5:
        return g.query().render("portable", "min" if rng.random() < 0.85 else "full"), "select"
    t = rng.choice(tables)
    src = g.base_source(t, alias=t.name)
    scope = [src]
    cols = [c for c, _ in t.cols]
    if r < 0.6:
        n = rng.randint(1, 3)
        items = ", ".join(f"{extra_expr(rng, g, scope)} AS e{i}" for i in range(n))
        where = f" WHERE {sqlgen.render(g.bool_expr(scope, 2))}" if rng.random() < 0.5 else ""
        return f"SELECT {items} FROM {t.name}{where}", "select-exprs"
    if r < 0.68:
        k = rng.randint(1, len(cols))
        use = rng.sample(cols, k)
        rows = []
        for _ in range(rng.randint(1, 3)):
            rows.append("(" + ", ".join(rng.choice(LITERALS) for _ in use) + ")")
        return f"INSERT INTO {t.name} ({', '.join(use)}) VALUES {', '.join(rows)}", "insert-values"
    if r < 0.74:
        q = g.select(depth=1, top=False)
        return f"INSERT INTO {t.name} {q.render('portable')}", "insert-select"
    if r < 0.82:
        sets = ", ".join(f"{c} = {sqlgen.render(g.int_expr(scope, 1)) if ty == INT else sqlgen.render(g.text_expr(scope, 1))}"
                         for c, ty in rng.sample(t.cols, rng.randint(1, min(2, len(t.cols)))) if ty in (INT, TEXT)) or f"{cols[0]} = 1"
        where = f" WHERE {sqlgen.render(g.bool_expr(scope, 2))}" if rng.random() < 0.7 else ""
        return f"UPDATE {t.name} SET {sets}{where}", "update"
    if r < 0.87:
        where = f" WHERE {sqlgen.render(g.bool_expr(scope, 2))}" if rng.random() < 0.8 else ""
        return f"DELETE FROM {t.name}{where}", "delete"
    if r < 0.92:
        defs = []
        for i in range(rng.randint(1, 4)):
            ty = rng.choice(_TYPES["list"])
            cons = rng.choice(["", "", " NOT NULL", " PRIMARY KEY" if i == 0 else "", " DEFAULT 0" if ty in ("INT", "BIGINT") else ""])
            defs.append(f"c{i} {ty}{cons}")
        if rng.random() < 0.3:
            defs.append("PRIMARY KEY (c0)" if "PRIMARY KEY" not in defs[0] else "UNIQUE (c0)")
        ine = "IF NOT EXISTS " if rng.random() < 0.3 else ""
        return f"CREATE TABLE {ine}n{rng.randint(1, 9)} ({', '.join(defs)})", "create-table"
    if r < 0.95:
        q = g.select(depth=1, top=False)
        kind = rng.choice(["TABLE", "VIEW"])
        return f"CREATE {kind} v{rng.randint(1, 9)} AS {q.render('portable')}", "create-as"
    if r < 0.975:
        return f"DROP {rng.choice(['TABLE', 'VIEW'])} {rng.choice(['', 'IF EXISTS '])}{t.name}", "drop"
    return f"ALTER TABLE {t.name} ADD COLUMN z{rng.randint(1, 9)} {rng.choice(_TYPES['list'])}", "alter-add"


# ---------------------------------------------------------------------------------
# an own, trivial lexer for text perturbation (never sqlglot's tokenizer)
# ---------------------------------------------------------------------------------


def split_tokens(sql):
    """Split into lexemes: quoted strings/identifiers, numbers, words, multi-char operators, single chars.
    Whitespace is dropped. Only meant for text produced by this package's generators or simple corpus SQL."""
    out = []
    i, n = 0, len(sql)
    while i < n:
        ch = sql[i]
        if ch.isspace():
            i += 1
            continue
        # dollar-quoted strings and prefixed string literals are one lexeme
        if ch == "$":
            import re as _re

            m = _re.match(r"\$([A-Za-z_]*)\$", sql[i:])
            if m:
                end = sql.find(m.group(0), i + len(m.group(0)))
                if end != -1:
                    out.append(sql[i:end + len(m.group(0))])
                    i = end + len(m.group(0))
                    continue
        if ch in "EeNnXxBbRrUu" and (i == 0 or not (sql[i - 1].isalnum() or sql[i - 1] == "_")):
            k = i + 1
            if k < n and sql[k] == "&":
                k += 1
            if k < n and sql[k] == "'":
                j = k + 1
                while j < n:
                    if sql[j] == "\\" and ch in "EeRr" and j + 1 < n:
                        j += 2
                        continue
                    if sql[j] == "'":
                        if j + 1 < n and sql[j + 1] == "'":
                            j += 2
                            continue
                        break
                    j += 1
                out.append(sql[i:j + 1])
                i = j + 1
                continue
        if ch in "'\"`":
            j = i + 1
            while j < n:
                if sql[j] == ch:
                    if j + 1 < n and sql[j + 1] == ch:
                        j += 2
                        continue
                    break
                j += 1
            out.append(sql[i:j + 1])
            i = j + 1
            continue
        if ch.isalpha() or ch == "_":
            j = i + 1
            while j < n and (sql[j].isalnum() or sql[j] in "_$"):
                j += 1
            out.append(sql[i:j])
            i = j
            continue
        if ch.isdigit():
            j = i + 1
            while j < n and (sql[j].isalnum() or sql[j] == "." or (sql[j] in "+-" and sql[j - 1] in "eE" and sql[i:j - 1].replace(".", "").isdigit())):
                j += 1
            out.append(sql[i:j])
            i = j
            continue
        two = sql[i:i + 2]
        if two in ("<>", "<=", ">=", "!=", "||", "::", "->", "=>", "<<", ">>"):
            out.append(two)
            i += 2
            continue
        out.append(ch)
        i += 1
    return out


def join_tokens(toks):
    """Re-assemble lexemes with single spaces where needed (conservative: always a space between
    two lexemes unless punctuation makes it unnecessary)."""
    s = ""
    for t in toks:
        if not s:
            s = t
        elif t in (",", ")", ";", ".") or s.endswith(("(", ".")):
            s += t
        elif t == "(" and (s[-1].isalnum() or s[-1] == "_") and s.split()[-1].upper() not in _KW_BEFORE_PAREN:
            s += t
        else:
            s += " " + t
    return s


_KW_BEFORE_PAREN = {"IN", "AND", "OR", "NOT", "ON", "AS", "FROM", "JOIN", "WHERE", "SELECT", "BY", "THEN", "ELSE", "WHEN",
                    "VALUES", "EXISTS", "ANY", "ALL", "UNION", "EXCEPT", "INTERSECT", "BETWEEN", "LIKE", "USING", "OVER",
                    "KEY", "UNIQUE", "HAVING", "SET", "INTO", "TABLE", "VIEW", "CASE", "END", "IS", "DISTINCT", "LIMIT"}

"""Seeded generator of typed SQL queries with ground truth. Independent of sqlglot.

Expressions and queries are small tuples/objects of this module; text is produced by
`render(node, prof)` for a surface profile ('portable', 'sqlite', 'duckdb'), so reference
engines receive text that sqlglot never touched. Every query records: output names,
base-column provenance per output (C17), whether its ORDER BY is total, and feature tags.
"""
from __future__ import annotations

INT, TEXT, BOOL, TS = "int", "text", "bool", "ts"

INT_DOMAIN = [None, -2, -1, 0, 1, 2, 3, 7]
TEXT_DOMAIN = [None, "", "x", "y", "xy", "10", "9"]
TS_DOMAIN = [None, "2001-02-03 04:05:06", "1999-12-31 23:59:58", "2020-07-15 12:30:45"]
BOOL_DOMAIN = [None, True, False]

# ---------------------------------------------------------------------------------
# schema and data
# ---------------------------------------------------------------------------------


class Table:
    def __init__(self, name, cols):
        self.name = name
        self.cols = cols  # list of (name, type)

    def coltype(self, c):
        return dict(self.cols)[c]


def gen_schema(rng, ntables=None, bools=False, ts=False, shared=True):
    """2-4 tables. Column names: a shared key column `k` (INT) in every table when `shared`,
    plus columns unique to the table (letter + table number)."""
    n = ntables or rng.randint(2, 4)
    tables = []
    for i in range(1, n + 1):
        cols = []
        if shared:
            cols.append(("k", INT))
        ncols = rng.randint(2, 3)
        letters = "abcd"
        for j in range(ncols):
            ty = rng.choice([INT, INT, INT, TEXT] + ([BOOL] if bools else []) + ([TS] if ts else []))
            cols.append((f"{letters[j]}{i}", ty))
        if not any(t == INT for _, t in cols[1:] or cols):
            cols.append((f"n{i}", INT))
        if not any(t == TEXT for _, t in cols):
            cols.append((f"s{i}", TEXT))
        tables.append(Table(f"t{i}", cols))
    return tables


def gen_data(rng, tables, max_rows=6):
    data = {}
    for t in tables:
        if rng.random() < 0.12:
            data[t.name] = []
            continue
        rows = []
        for _ in range(rng.randint(1, max_rows)):
            if rows and rng.random() < 0.3:
                rows.append(rng.choice(rows))
                continue
            row = []
            for c, ty in t.cols:
                dom = {INT: INT_DOMAIN, TEXT: TEXT_DOMAIN, BOOL: BOOL_DOMAIN, TS: TS_DOMAIN}[ty]
                if c == "k":
                    dom = [None, 0, 1, 1, 2, 2, 3]
                row.append(rng.choice(dom))
            rows.append(tuple(row))
        data[t.name] = rows
    return data


def sqlglot_schema(tables):
    m = {INT: "INT", TEXT: "TEXT", BOOL: "BOOLEAN", TS: "TIMESTAMP"}
    return {t.name: {c: m[ty] for c, ty in t.cols} for t in tables}


def ddl(tables, prof):
    m = {INT: "INTEGER", TEXT: "TEXT", BOOL: "BOOLEAN", TS: "TIMESTAMP" if prof == "duckdb" else "TEXT"}
    return [f"CREATE TABLE {t.name} ({', '.join(f'{c} {m[ty]}' for c, ty in t.cols)})" for t in tables]


# ---------------------------------------------------------------------------------
# expression rendering (own precedence table)
# ---------------------------------------------------------------------------------

PREC = {"or": 1, "and": 2, "not": 3, "cmp": 4, "concat": 6, "add": 7, "mul": 8, "neg": 9, "atom": 10}
BINOPS = {"+": "add", "-": "add", "*": "mul", "/": "mul", "%": "mul", "||": "concat",
          "=": "cmp", "<>": "cmp", "<": "cmp", "<=": "cmp", ">": "cmp", ">=": "cmp", "!=": "cmp",
          "AND": "and", "OR": "or"}


def prec(e):
    k = e[0]
    if k == "bin":
        return PREC[BINOPS[e[1]]]
    if k in ("between", "inlist", "isnull", "like", "insub", "anysub"):
        return PREC["cmp"]
    if k == "not":
        return PREC["not"]
    if k == "neg":
        return PREC["neg"]
    if k == "sdiv":
        return PREC["mul"]
    return PREC["atom"]


def lit_sql(v, ty, prof):
    if v is None:
        return "NULL"
    if ty == BOOL:
        return "TRUE" if v else "FALSE"
    if ty == INT:
        return str(v)
    if ty == TS:
        if prof == "duckdb":
            return f"CAST('{v}' AS TIMESTAMP)"
        return f"'{v}'"
    return "'" + str(v).replace("'", "''") + "'"


def render(e, prof="portable", mode="min"):
    """mode: 'min' minimal parentheses, 'full' every binary operand parenthesised."""
    k = e[0]
    R = lambda x: render(x, prof, mode)

    def child(x, parent_prec, right=False, parent_op=None):
        s = R(x)
        p = prec(x)
        need = p < parent_prec or (right and p == parent_prec)
        # comparisons do not chain; NOT under a comparison etc. always parenthesised
        if parent_prec == PREC["cmp"] and p <= PREC["cmp"]:
            need = True
        # `%` next to other arithmetic is always parenthesised (see DESIGN.md: MOD precedence finding)
        if x[0] == "bin" and x[1] == "%" and parent_op in ("+", "-", "*", "/", "%"):
            need = True
        if x[0] == "bin" and parent_op == "%" and x[1] in ("+", "-", "*", "/", "%"):
            need = True
        if x[0] == "neg" and parent_op in ("-", "+") and right:
            need = True  # a - -b would lex as a comment in some dialects
        if mode == "full" and x[0] in ("bin", "not", "neg", "between", "inlist", "isnull", "like"):
            need = True
        return f"({s})" if need else s

    if k == "col":
        return f"{e[1]}.{e[2]}" if e[1] else e[2]
    if k == "lit":
        return lit_sql(e[1], e[2], prof)
    if k == "raw":
        return e[1]
    if k == "paren":
        return f"({R(e[1])})"
    if k == "bin":
        op = e[1]
        p = prec(e)
        return f"{child(e[2], p, False, op)} {op} {child(e[3], p, True, op)}"
    if k == "raw_fn":
        # FN(arg ORDER BY col [DESC])
        return f"{e[1]}({R(e[2])} ORDER BY {R(e[3])}{' DESC' if e[4] else ''})"
    if k == "sdiv":
        # division with SQLite's meaning (NULL for a zero divisor); DuckDB would give inf, so the generator's own DuckDB
        # text writes the guard out
        p = PREC["mul"]
        right = child(e[2], p, True, "/")
        if prof == "duckdb":
            right = f"NULLIF({R(e[2])}, 0)"
        return f"{child(e[1], p, False, '/')} / {right}"
    if k == "neg":
        inner = child(e[1], PREC["neg"])
        if inner.startswith("-"):
            inner = f"({inner})"
        return f"-{inner}"
    if k == "not":
        return f"NOT {child(e[1], PREC['not'])}"
    if k == "fn":
        return f"{e[1]}({', '.join(R(a) for a in e[2])})"
    if k == "agg":
        name, arg, distinct = e[1], e[2], e[3]
        if arg == "*":
            return f"{name}(*)"
        return f"{name}({'DISTINCT ' if distinct else ''}{R(arg)})"
    if k == "case":
        whens = " ".join(f"WHEN {R(c)} THEN {R(v)}" for c, v in e[1])
        els = f" ELSE {R(e[2])}" if e[2] is not None else ""
        return f"CASE {whens}{els} END"
    if k == "between":
        p = PREC["cmp"]
        return (f"{child(e[1], PREC['concat'])} {'NOT ' if e[4] else ''}BETWEEN "
                f"{child(e[2], PREC['concat'])} AND {child(e[3], PREC['concat'])}")
    if k == "inlist":
        return f"{child(e[1], PREC['concat'])} {'NOT ' if e[3] else ''}IN ({', '.join(R(x) for x in e[2])})"
    if k == "isnull":
        return f"{child(e[1], PREC['concat'])} IS {'NOT ' if e[2] else ''}NULL"
    if k == "like":
        return f"{child(e[1], PREC['concat'])} {'NOT ' if e[3] else ''}LIKE {R(e[2])}"
    if k == "cast":
        return f"CAST({R(e[1])} AS {e[2]})"
    if k == "insub":
        return f"{child(e[1], PREC['concat'])} {'NOT ' if e[3] else ''}IN ({e[2].render(prof, mode)})"
    if k == "exists":
        return f"{'NOT ' if e[2] else ''}EXISTS ({e[1].render(prof, mode)})"
    if k == "scalar":
        return f"({e[1].render(prof, mode)})"
    if k == "anysub":
        return f"{child(e[1], PREC['concat'])} {e[2]} {e[4]} ({e[3].render(prof, mode)})"
    if k == "win":
        parts = []
        if e[2]:
            parts.append("PARTITION BY " + ", ".join(R(x) for x in e[2]))
        if e[3]:
            parts.append("ORDER BY " + ", ".join(order_item(x, prof, mode) for x in e[3]))
        if e[4]:
            parts.append(e[4])
        return f"{R(e[1])} OVER ({' '.join(parts)})"
    if k == "strftime":
        # ('strftime', ts_expr, fmt) - strftime-style formatting in the engine's own spelling
        if prof == "duckdb":
            return f"STRFTIME({R(e[1])}, '{e[2]}')"
        return f"STRFTIME('{e[2]}', {R(e[1])})"
    raise AssertionError(k)


# When set to 'sqlite' or 'duckdb', ORDER BY keys without NULLS FIRST|LAST are rendered with the
# explicit placement that engine applies by default (SQLite: NULLs are smallest; DuckDB: NULLS LAST).
RENDER_OPTS = {"explicit_nulls": None}


def render_explicit(q, prof, semantics_of, mode="min"):
    RENDER_OPTS["explicit_nulls"] = semantics_of
    try:
        return q.render(prof, mode)
    finally:
        RENDER_OPTS["explicit_nulls"] = None


def order_item(o, prof, mode="min"):
    e, desc, nulls = o
    if nulls not in ("first", "last") and RENDER_OPTS["explicit_nulls"]:
        if RENDER_OPTS["explicit_nulls"] == "sqlite":
            nulls = "last" if desc is True else "first"
        else:
            nulls = "last"
    s = render(e, prof, mode) if not isinstance(e, str) else e
    if desc is True:
        s += " DESC"
    elif desc is False and nulls == "explicit-asc":
        s += " ASC"
    if nulls in ("first", "last"):
        s += f" NULLS {nulls.upper()}"
    return s


def cols_of(e, acc=None):
    """base column references (alias, name) in an expression; nested queries are not entered (a scalar subquery's
    contribution to provenance is added separately from its own projection)"""
    acc = set() if acc is None else acc
    if not isinstance(e, tuple):
        return acc
    if e and isinstance(e[0], str):
        if e[0] == "col":
            acc.add((e[1], e[2]))
            return acc
        rest = e[1:]
    else:
        rest = e   # a plain tuple such as (expr, desc, nulls) of an ORDER BY item or (cond, value) of a CASE branch
    for x in rest:
        if isinstance(x, tuple):
            cols_of(x, acc)
        elif isinstance(x, list):
            for y in x:
                if isinstance(y, tuple):
                    cols_of(y, acc)
    return acc


# ---------------------------------------------------------------------------------
# queries
# ---------------------------------------------------------------------------------


class Source:
    """A FROM item. kind: 'table' (base), 'derived' (subquery), 'cte' (reference)."""

    def __init__(self, kind, alias, name=None, query=None, cols=None, base=None):
        self.kind, self.alias, self.name, self.query = kind, alias, name, query
        self.cols = cols  # list of (name, type, provenance frozenset[(table, col)])
        self.base = base

    def render(self, prof, mode="min"):
        if self.kind == "derived":
            return f"({self.query.render(prof, mode)}) AS {self.alias}"
        if self.alias == self.name:
            return self.name
        return f"{self.name} AS {self.alias}"


class Query:
    def __init__(self):
        self.ctes = []        # list of (name, Query, colnames|None)
        self.distinct = False
        self.distinct_on = None
        self.projs = []       # list of (expr | ('star', alias|None), alias|None)
        self.from_ = None
        self.joins = []       # list of (kind, Source, on_expr|None, using|None)
        self.where = None
        self.group = []
        self.having = None
        self.qualify = None
        self.order = []       # (expr|str, desc, nulls)
        self.limit = None
        self.offset = None
        self.setops = []      # list of (op, Query)
        self.out = []         # list of (name, type, provenance frozenset)
        self.tags = set()
        self.order_total = False

    def render(self, prof="portable", mode="min"):
        s = ""
        if self.ctes:
            parts = []
            for name, q, colnames in self.ctes:
                cl = f"({', '.join(colnames)})" if colnames else ""
                parts.append(f"{name}{cl} AS ({q.render(prof, mode)})")
            s += "WITH " + ", ".join(parts) + " "
        s += self._select(prof, mode)
        for op, q in self.setops:
            s += f" {op} {q._select(prof, mode)}"
        if self.order:
            s += " ORDER BY " + ", ".join(order_item(o, prof, mode) for o in self.order)
        if self.limit is not None:
            s += f" LIMIT {self.limit}"
        if self.offset is not None:
            s += f" OFFSET {self.offset}"
        return s

    def _select(self, prof, mode):
        s = "SELECT "
        if self.distinct_on:
            s += "DISTINCT ON (" + ", ".join(render(x, prof, mode) for x in self.distinct_on) + ") "
        elif self.distinct:
            s += "DISTINCT "
        ps = []
        for e, alias in self.projs:
            if e[0] == "star":
                ps.append(f"{e[1]}.*" if e[1] else "*")
            else:
                t = render(e, prof, mode)
                ps.append(f"{t} AS {alias}" if alias else t)
        s += ", ".join(ps)
        if self.from_ is not None:
            s += " FROM " + self.from_.render(prof, mode)
        for kind, src, on, using in self.joins:
            s += f" {kind} {src.render(prof, mode)}"
            if on is not None:
                s += " ON " + render(on, prof, mode)
            elif using:
                s += f" USING ({', '.join(using)})"
        if self.where is not None:
            s += " WHERE " + render(self.where, prof, mode)
        if self.group:
            s += " GROUP BY " + ", ".join(render(g, prof, mode) for g in self.group)
        if self.having is not None:
            s += " HAVING " + render(self.having, prof, mode)
        if self.qualify is not None:
            s += " QUALIFY " + render(self.qualify, prof, mode)
        return s


DEFAULT_FEATS = dict(
    joins=True, full_join=True, right_join=True, cross_join=True, using=True, semi_anti=False,
    derived=True, cte=True, subq=True, correlated=True, any_sub=False, not_in=True,
    group=True, having=True, distinct=True, distinct_on=False, window=False, qualify=False,
    setops=True, setops_all=True, order=True, limit=True, offset=True,
    div=False, mod=True, like=True, text=True, casts=True, bools=False, ts=False, strftime=False,
    stars=True, unqualified=0.3, nulls_order=True, case=True, redundant_parens=0.1,
    max_depth=3, expr_depth=3, where_one_side_full=False, ifnull=True, agg_distinct=True,
    order_by_expr=True, nested_agg_in_order=False, cte_cols=False, star_except=False, tvl=False,
)


class Gen:
    def __init__(self, rng, tables, feats=None, prof="portable"):
        self.rng = rng
        self.tables = tables
        self.f = dict(DEFAULT_FEATS)
        if feats:
            self.f.update(feats)
        self.alias_n = 0
        self.cte_n = 0
        self.prof = prof
        self.tags = set()
        self._plain = 0   # >0 while generating a source that sits on the null-supplying side (outer_derived="plain")

    # -- helpers -------------------------------------------------------------------
    def new_alias(self, prefix="x"):
        self.alias_n += 1
        return f"{prefix}{self.alias_n}"

    def pick(self, xs):
        return self.rng.choice(xs)

    def chance(self, p):
        return self.rng.random() < p

    # -- expressions ---------------------------------------------------------------
    def colref(self, scope, ty, outer=None):
        """scope: list of Source. Returns a column expr of type ty or None."""
        cands = [(s, c) for s in scope for c in s.cols if c[1] == ty]
        if not cands:
            return None
        s, c = self.pick(cands)
        ambiguous = sum(1 for s2 in scope for c2 in s2.cols if c2[0] == c[0]) > 1
        qualify = (ambiguous or not self.chance(self.f["unqualified"]) or getattr(s, "force_qualify", False)
                   or getattr(self, "_force_q", False))
        return ("col", s.alias if qualify else None, c[0], ty, s.alias)

    def int_expr(self, scope, d, agg_ok=False):
        r = self.rng.random()
        f = self.f
        if d <= 0 or r < 0.3:
            c = self.colref(scope, INT)
            if c is not None and self.chance(0.75):
                return c
            return ("lit", self.pick([0, 1, 2, 3, 7, -1, None] if self.chance(0.15) else [0, 1, 2, 3, 7]), INT)
        if r < 0.55:
            ops = ["+", "-", "*"] + (["%"] if f["mod"] else []) + (["/"] if f["div"] else [])
            op = self.pick(ops)
            self.tags.add("arith:" + {"+": "add", "-": "sub", "*": "mul", "%": "mod", "/": "div"}[op])
            l = self.int_expr(scope, d - 1)
            if op in ("%", "/"):
                rr = ("lit", self.pick([1, 2, 3, 7]), INT)
            else:
                rr = self.int_expr(scope, d - 1)
            e = ("bin", op, l, rr)
            if self.chance(f["redundant_parens"]):
                e = ("paren", e)
            return e
        if r < 0.6:
            self.tags.add("arith:neg")
            return ("neg", self.int_expr(scope, d - 1))
        if r < 0.7:
            self.tags.add("fn:coalesce")
            return ("fn", "COALESCE", [self.int_expr(scope, d - 1) for _ in range(self.pick([2, 2, 3]))], INT)
        if r < 0.75:
            self.tags.add("fn:nullif")
            return ("fn", "NULLIF", [self.int_expr(scope, d - 1), self.int_expr(scope, d - 1)], INT)
        if r < 0.8:
            self.tags.add("fn:abs")
            return ("fn", "ABS", [self.int_expr(scope, d - 1)], INT)
        if r < 0.83 and f["ifnull"]:
            self.tags.add("fn:ifnull")
            return ("fn", "IFNULL", [self.int_expr(scope, d - 1), self.int_expr(scope, d - 1)], INT)
        if r < 0.9 and f["case"]:
            self.tags.add("fn:case")
            whens = [(self.bool_expr(scope, d - 1), self.int_expr(scope, d - 1)) for _ in range(self.pick([1, 1, 2]))]
            return ("case", whens, self.int_expr(scope, d - 1) if self.chance(0.7) else None, INT)
        if r < 0.93 and f["text"]:
            self.tags.add("fn:length")
            return ("fn", "LENGTH", [self.text_expr(scope, d - 1)], INT)
        if r < 0.97 and f.get("tvl"):
            # three-valued observer: tells NULL, FALSE and TRUE of a predicate apart in the result rows
            self.tags.add("bool:3vl-observed")
            b = self.bool_expr(scope, d - 1)
            return ("case", [(("isnull", ("paren", b), False), ("lit", -1, INT)), (b, ("lit", 1, INT))], ("lit", 0, INT), INT)
        return self.int_expr(scope, d - 1)

    def text_expr(self, scope, d):
        r = self.rng.random()
        if d <= 0 or r < 0.4:
            c = self.colref(scope, TEXT)
            if c is not None and self.chance(0.7):
                return c
            return ("lit", self.pick(["x", "y", "q", "", "10"]), TEXT)
        if r < 0.6:
            self.tags.add("text:concat")
            return ("bin", "||", self.text_expr(scope, d - 1), self.text_expr(scope, d - 1))
        if r < 0.7:
            self.tags.add("text:upper")
            return ("fn", "UPPER", [self.text_expr(scope, d - 1)], TEXT)
        if r < 0.8:
            self.tags.add("text:lower")
            return ("fn", "LOWER", [self.text_expr(scope, d - 1)], TEXT)
        if r < 0.9:
            self.tags.add("fn:coalesce")
            return ("fn", "COALESCE", [self.text_expr(scope, d - 1), self.text_expr(scope, d - 1)], TEXT)
        if self.f["casts"] and r < 0.95:
            self.tags.add("cast:int-text")
            return ("cast", self.int_expr(scope, d - 1), "TEXT")
        if self.f["strftime"]:
            c = self.colref(scope, TS)
            if c is not None:
                self.tags.add("time:strftime")
                fmt = self.pick(["%Y", "%Y-%m-%d", "%H:%M:%S", "%d/%m/%Y %H", "%Y%m%d", "%M", "%S-%Y"])
                return ("strftime", c, fmt)
        return self.text_expr(scope, d - 1)

    def _nonconst(self, e, scope, ty=INT):
        """with const_cmp switched off, a predicate operand always mentions a column"""
        if self.f.get("const_cmp", True) or cols_of(e):
            return e
        return self.colref(scope, ty) or e

    def cmp_expr(self, scope, d):
        r = self.rng.random()
        op = self.pick(["=", "<>", "<", "<=", ">", ">="])
        self.tags.add("cmp")
        if self.f["ts"] and r < 0.2:
            c = self.colref(scope, TS)
            if c is not None:
                self.tags.add("time:cmp-iso-literal")
                return ("bin", op, c, ("lit", self.pick(TS_DOMAIN[1:] + ["2000-01-01 00:00:00"]), TEXT))
        if r < 0.75 or not self.f["text"]:
            l, rr = self.int_expr(scope, d), self.int_expr(scope, d)
            if not self.f.get("const_cmp", True) and not cols_of(l) and not cols_of(rr):
                l = self.colref(scope, INT) or l
            if not self.f.get("lit_left_cmp", True) and l[0] == "lit":
                l, rr = rr, l
                if l[0] == "lit":
                    l = self.colref(scope, INT) or l
            return ("bin", op, l, rr)
        l, rr = self.text_expr(scope, d), self.text_expr(scope, d)
        if not self.f.get("const_cmp", True) and not cols_of(l) and not cols_of(rr):
            l = self.colref(scope, TEXT)
            if l is None:
                return ("bin", op, self.colref(scope, INT) or ("lit", 1, INT), self.int_expr(scope, d))
        return ("bin", op, l, rr)

    def bool_expr(self, scope, d, subq_ok=False, outer=None):
        r = self.rng.random()
        f = self.f
        if d <= 0 or r < 0.3:
            if f["bools"] and self.chance(0.3):
                c = self.colref(scope, BOOL)
                if c is not None:
                    return c
            return self.cmp_expr(scope, max(d - 1, 0))
        sub_in_or = subq_ok and f.get("subq_under_or", True)
        if r < 0.45:
            self.tags.add("bool:and")
            return ("bin", "AND", self.bool_expr(scope, d - 1, subq_ok), self.bool_expr(scope, d - 1, subq_ok))
        if r < 0.58:
            self.tags.add("bool:or")
            return ("bin", "OR", self.bool_expr(scope, d - 1, sub_in_or), self.bool_expr(scope, d - 1, sub_in_or))
        if r < 0.66:
            self.tags.add("bool:not")
            return ("not", self.bool_expr(scope, d - 1, sub_in_or))
        if r < 0.74:
            self.tags.add("pred:is-null")
            e = self.int_expr(scope, d - 1) if self.chance(0.7) or not f["text"] else self.text_expr(scope, d - 1)
            return ("isnull", self._nonconst(e, scope), self.chance(0.5))
        if r < 0.82:
            self.tags.add("pred:in-list")
            items = [("lit", self.pick([0, 1, 2, 3, 7, None] if self.chance(0.2) else [0, 1, 2, 3, 7]), INT)
                     for _ in range(self.pick([1, 2, 3]))]
            return ("inlist", self._nonconst(self.int_expr(scope, d - 1), scope), items, self.chance(0.3))
        if r < 0.88:
            self.tags.add("pred:between")
            return ("between", self._nonconst(self.int_expr(scope, d - 1), scope), self.int_expr(scope, 0), self.int_expr(scope, 0), self.chance(0.3))
        if r < 0.91 and f["like"] and f["text"]:
            self.tags.add("pred:like-digits")
            return ("like", self._nonconst(self.text_expr(scope, d - 1), scope, TEXT), ("lit", self.pick(["1%", "%0", "_", "%", "9"]), TEXT), self.chance(0.3))
        if r < 0.97 and subq_ok and f["subq"]:
            return self.subq_pred(scope, d - 1)
        if f["paren"] if "paren" in f else self.chance(f["redundant_parens"]):
            return ("paren", self.bool_expr(scope, d - 1, subq_ok))
        return self.cmp_expr(scope, d - 1)

    # -- subqueries ------------------------------------------------------------------
    def subq_pred(self, scope, d):
        f = self.f
        kind = self.pick(["in", "exists", "scalar"] + (["any"] if f["any_sub"] else []))
        if kind == "scalar" and f.get("scalar_subq_max") is not None:
            if getattr(self, "_n_scalar", 0) >= f["scalar_subq_max"]:
                kind = self.pick(["in", "exists"])
            else:
                self._n_scalar = getattr(self, "_n_scalar", 0) + 1
        t = self._subq_table()
        src = self.base_source(t)
        src.force_qualify = True
        if f.get("deep_corr") and f["correlated"] and self.chance(f["deep_corr"]):
            # the subquery reads a derived table whose body projects a column of the *outer* query under its own name
            # (bare when no inner column has that name): a correlated reference one level further down
            inner_names = {c[0] for c in src.cols}
            cands = [(s2, c2) for s2 in scope for c2 in s2.cols if c2[0] not in inner_names]
            if cands:
                s2, c2 = self.pick(cands)
                dq = Query()
                dq.from_ = src
                dq.scope = [src]
                oc = ("col", None if self.chance(0.7) and sum(1 for s3 in scope for c3 in s3.cols if c3[0] == c2[0]) == 1 else s2.alias,
                      c2[0], c2[1], s2.alias)
                keep = [c for c in src.cols if self.chance(0.6)] or [src.cols[0]]
                dq.projs = [(oc, None)] + [(("col", src.alias, c[0], c[1], src.alias), None) for c in keep]
                dq.out = [(c2[0], c2[1], c2[2])] + [(c[0], c[1], c[2]) for c in keep]
                dq.tags = set()
                src = Source("derived", self.new_alias("d"), query=dq, cols=list(dq.out))
                src.force_qualify = True
                src.outer_col = c2[0]
                self.tags.add("sub:derived-projects-outer-column")
        q = Query()
        q.from_ = src
        inner = [src]
        corr = None
        if f["correlated"] and self.chance(0.6):
            oc = self.colref(scope, INT)
            ic = self.colref(inner, INT)
            if oc is not None and ic is not None:
                oc = ("col", oc[4], oc[2], INT, oc[4])  # outer references are always qualified
                corr = ("bin", "=", ic, oc)
                self.tags.add("sub:correlated")
        if corr is None:
            self.tags.add("sub:uncorrelated")
        w = corr
        if self.chance(0.4):
            extra = self.bool_expr(inner, 1)
            w = extra if w is None else ("bin", "AND", w, extra)
        q.where = w
        if kind == "in":
            neg = f["not_in"] and self.chance(0.3)
            self.tags.add("sub:not-in" if neg else "sub:in")
            e = self.colref(inner, INT) or ("lit", 1, INT)
            q.projs = [(e, None)]
            if f.get("grouped_in_subquery", True) and e[0] == "col" and corr is None and self.chance(0.4):
                # GROUP BY the selected key and, sometimes, a second key (the value then repeats across groups)
                q.group = [e]
                other = self.colref(inner, self.pick([INT, TEXT]))
                if other is not None and other[2] != e[2] and self.chance(0.6):
                    q.group.append(other)
                self.tags.add("sub:in-grouped")
            return ("insub", self.int_expr(scope, 1), q, neg)
        if kind == "exists":
            neg = self.chance(0.3)
            self.tags.add("sub:not-exists" if neg else "sub:exists")
            q.projs = [(("lit", 1, INT), None)]
            return ("exists", q, neg)
        if kind == "any":
            self.tags.add("sub:any")
            e = self.colref(inner, INT) or ("lit", 1, INT)
            q.projs = [(e, None)]
            return ("anysub", self.int_expr(scope, 1), self.pick(["=", "<", ">"]), q, self.pick(["ANY", "ALL"]) if False else "ANY")
        self.tags.add("sub:scalar")
        arg = self.colref(inner, INT) or ("lit", 1, INT)
        if arg[0] == "col" and arg[2] == getattr(src, "outer_col", None) and not f.get("agg_over_outer"):
            # an aggregate whose argument is (after inlining the derived table) a column of the outer query belongs to the
            # outer query by the SQL rules: listed finding of merge_subqueries (C03 probe); not part of the main workload
            others = [c for c in src.cols if c[1] == INT and c[0] != src.outer_col]
            arg = ("col", src.alias, others[0][0], INT, src.alias) if others else ("lit", 1, INT)
        sagg = ("agg", self.pick(["MAX", "MIN", "SUM", "COUNT"]), arg, False)
        if f.get("agg_arith") and self.chance(f["agg_arith"]):
            sagg = ("bin", self.pick(["+", "-"]), sagg, ("lit", self.pick([1, 2]), INT)) if self.chance(0.6) else ("bin", "-", ("lit", 7, INT), sagg)
            self.tags.add("sub:scalar-agg-arith")
        q.projs = [(sagg, None)]
        return ("bin", self.pick(["=", "<", ">=", "<>"]), self.int_expr(scope, 1), ("scalar", q))

    # -- sources ---------------------------------------------------------------------
    def base_source(self, t, alias=None):
        alias = alias or (self.new_alias("x") if self.chance(0.8) else None)
        if alias is None:
            # unaliased base table: only once per query (tracked by caller through alias uniqueness)
            self.alias_n += 1
            alias = t.name if not getattr(self, "_used_" + t.name, False) else self.new_alias("x")
            setattr(self, "_used_" + t.name, True)
        cols = [(c, ty, frozenset([(t.name, c)])) for c, ty in t.cols]
        return Source("table", alias, name=t.name, cols=cols, base=t)

    def derived_source(self, depth):
        if self.f.get("derived_setop") and self.f["setops"] and self.chance(self.f["derived_setop"]):
            # a set operation as a derived table
            saved = self._scope_tables
            self._scope_tables = set()
            try:
                q = self.setop_query(as_source=True)
            finally:
                self._scope_tables = saved
            self.tags.add("derived:set-operation")
            return Source("derived", self.new_alias("d"), query=q, cols=[(n, ty, prov) for n, ty, prov in q.out])
        q = self.select(depth - 1, as_source=True)
        alias = self.new_alias("d")
        cols = [(n, ty, prov) for n, ty, prov in q.out]
        return Source("derived", alias, query=q, cols=cols)

    def _base_tables(self, src):
        return {t for c in src.cols for (t, _) in c[2]}

    def source(self, depth, ctes):
        r = self.rng.random()
        no_self = not self.f.get("self_join", True)
        used = getattr(self, "_scope_tables", set())
        if depth > 0 and self.f["derived"] and r < (0.25 if not self._plain else 0.45):
            saved = self._scope_tables
            src = self.derived_source(depth)
            self._scope_tables = saved
            if not (no_self and self._base_tables(src) & used):
                self.tags.add("derived")
                self._scope_tables |= self._base_tables(src)
                return src
        if ctes and r < 0.6:
            name, q, colnames = self.pick(ctes)
            cols = [((colnames[i] if colnames else n), ty, prov) for i, (n, ty, prov) in enumerate(q.out)]
            src = Source("cte", self.new_alias("r"), name=name, cols=cols)   # (not "c": c1..c4 are column names)
            if not (no_self and self._base_tables(src) & used):
                self.tags.add("cte:ref")
                self._scope_tables |= self._base_tables(src)
                return src
        cands = self.tables
        if not self.f.get("self_join", True):
            used = getattr(self, "_scope_tables", set())
            cands = [t for t in self.tables if t.name not in used]
            if not cands:
                return None
        t = self.pick(cands)
        if hasattr(self, "_scope_tables"):
            self._scope_tables.add(t.name)
        return self.base_source(t)

    # -- select ----------------------------------------------------------------------
    def select(self, depth=None, as_source=False, top=False, ctes=None, fixed_out=None):
        saved = getattr(self, "_scope_tables", None)
        self._scope_tables = set()
        try:
            return self._select(depth, as_source, top, ctes)
        finally:
            self._scope_tables = saved if saved is not None else set()

    def _select(self, depth=None, as_source=False, top=False, ctes=None):
        f = self.f
        depth = f["max_depth"] if depth is None else depth
        q = Query()
        ctes = list(ctes or [])
        nested = (not top) and as_source and depth > 0 and f.get("nested_with") and f["cte"] and self.chance(0.25)
        if (top and f["cte"] and self.chance(0.35)) or nested:
            for n_cte in range(self.pick([1, 1, 2]) if not nested else 2):
                self.cte_n += 1
                my_n = self.cte_n
                name = f"cte{my_n}"
                visible = ctes
                if nested and n_cte == 0 and ctes and self.chance(0.7):
                    # a nested WITH that re-defines a CTE name visible from the enclosing query: inside, the name
                    # means the inner definition (the later sibling CTE and the body may refer to it). The new
                    # definition's own body does not mention the name (engines disagree on what that would mean).
                    name = self.pick(ctes)[0]
                    visible = [c for c in ctes if c[0] != name]
                    self.tags.add("cte:shadows-outer")
                if f.get("derived_setop") and f["setops"] and self.chance(f["derived_setop"]):
                    # a CTE whose body is a chain of set operations (with cte_cols: under a column list)
                    saved_st = self._scope_tables
                    self._scope_tables = set()
                    try:
                        cq = self.setop_query(as_source=True)
                    finally:
                        self._scope_tables = saved_st
                    self.tags.add("cte:set-operation")
                else:
                    cq = self.select(max(depth - 1, 0), as_source=True, ctes=visible)
                colnames = None
                if f["cte_cols"] and self.chance(0.3):
                    colnames = [f"cc{my_n}_{i}" for i in range(len(cq.out))]
                    self.tags.add("cte:column-list")
                entry = (name, cq, colnames)
                ctes = [c for c in ctes if c[0] != name] + [entry]
                q.ctes.append(entry)
            self.tags.add("cte:nested" if nested else "cte")
        od = f.get("outer_derived", True)
        plain_mode = self._plain > 0
        # outer_derived="plain": with some probability the whole FROM list is generated "plain" (derived tables project
        # bare columns only), which makes it eligible for RIGHT / FULL joins that null-extend it
        scope_plain = od == "plain" and f["joins"] and self.chance(0.4)
        if scope_plain:
            self._plain += 1
            try:
                q.from_ = self.source(depth, [])
            finally:
                self._plain -= 1
        else:
            q.from_ = self.source(depth, ctes)
        scope = [q.from_]
        had_semi = False
        if f["joins"] and (self.chance(0.45) if not scope_plain else self.chance(0.9)):
            for _ in range(self.pick([1, 1, 2] if not scope_plain else [1, 2, 2, 3])):
                kinds = ["JOIN", "INNER JOIN", "LEFT JOIN"]
                if f["right_join"]:
                    kinds += ["RIGHT JOIN"] * (3 if scope_plain else 1)
                if f["full_join"]:
                    kinds += ["FULL JOIN"] * (2 if scope_plain else 1)
                if f["cross_join"]:
                    kinds.append("CROSS JOIN")
                if f["semi_anti"]:
                    kinds += ["SEMI JOIN", "ANTI JOIN"]
                if had_semi and not f.get("semi_then_outer"):
                    # a SEMI/ANTI join followed by RIGHT/FULL is a listed finding (C02): excluded here
                    kinds = [k for k in kinds if k not in ("RIGHT JOIN", "FULL JOIN")]
                kind = self.pick(kinds)
                had_semi = had_semi or kind in ("SEMI JOIN", "ANTI JOIN")
                if od is not True:
                    # False: the null-supplying side of an outer join is always a base table
                    # "plain": ... or a derived table whose projections are bare columns (all the way down)
                    if kind in ("RIGHT JOIN", "FULL JOIN") and any(s2.kind != "table" for s2 in scope) and not scope_plain:
                        kind = "LEFT JOIN" if kind == "FULL JOIN" else "JOIN"
                    if kind in ("LEFT JOIN", "FULL JOIN") or scope_plain:
                        if od == "plain":
                            self._plain += 1
                            try:
                                src = self.source(depth, [])
                            finally:
                                self._plain -= 1
                            if src is not None and src.kind != "table":
                                self.tags.add("join:null-extended-derived")
                        else:
                            saved_d = f["derived"]
                            f["derived"] = False
                            try:
                                src = self.source(depth, [])
                            finally:
                                f["derived"] = saved_d
                    else:
                        src = self.source(depth, ctes)
                else:
                    src = self.source(depth, ctes)
                if src is None:
                    break
                if kind == "CROSS JOIN" and src.kind != "table" and not f.get("cross_join_derived", True):
                    kind = "JOIN"
                natural = False
                if f.get("natural_join") and kind in ("JOIN", "INNER JOIN", "LEFT JOIN") and self.chance(f["natural_join"]):
                    # NATURAL JOIN: the common columns are taken from *all* relations joined so far. Allowed when every common
                    # name occurs exactly once on the left (engines reject it otherwise) with the same type
                    left_cols = [c for s2 in scope for c in s2.cols]
                    left_names = [c[0] for c in left_cols]
                    common = [c for c in src.cols if c[0] in left_names]
                    if common and all(left_names.count(c[0]) == 1 and next(l for l in left_cols if l[0] == c[0])[1] == c[1] for c in common) \
                            and len({c[0] for c in src.cols}) == len(src.cols):
                        natural = True
                        kind = "NATURAL " + kind
                        q.natural_merged = getattr(q, "natural_merged", []) + [
                            (c[0], c[1], {src.alias, next(s2.alias for s2 in scope if any(l[0] == c[0] for l in s2.cols))}) for c in common]
                        self.tags.add("join:natural")
                        if len(scope) > 1:
                            self.tags.add("join:natural-after-other-joins")
                self.tags.add("join:" + kind.split()[0].lower())
                on = using = None
                if natural:
                    for s2 in scope + [src]:
                        s2.force_qualify = True
                    q.using_merged = True
                    q.merged_sources = getattr(q, "merged_sources", set()) | {s2.alias for s2 in scope + [src]}
                elif kind != "CROSS JOIN":
                    lk = [c for s in scope for c in s.cols if c[0] == "k"]
                    rk = [c for c in src.cols if c[0] == "k"]
                    if f["using"] and lk and rk and len(scope) == 1 and self.chance(0.25) and kind not in ("SEMI JOIN", "ANTI JOIN"):
                        using = ["k"]
                        self.tags.add("join:using")
                    else:
                        l = self.colref(scope, INT)
                        rc = self.colref([src], INT)
                        if (l is None or rc is None) and src.kind != "table" and not f.get("cross_join_derived", True):
                            break
                        if l is None or rc is None:
                            kind = "CROSS JOIN"
                        else:
                            l = ("col", l[4], l[2], INT, l[4])
                            rc = ("col", rc[4], rc[2], INT, rc[4])
                            on = ("bin", "=", l, rc)
                            m = self.rng.random()
                            if m < 0.2:
                                self._force_q = True
                                try:
                                    on = ("bin", "AND", on, self.bool_expr(scope + [src], 1))
                                finally:
                                    self._force_q = False
                                self.tags.add("join:on-mixed")
                            elif m < 0.3:
                                on = ("bin", self.pick(["<", ">", "<="]), l, rc)
                                self.tags.add("join:on-nonequi")
                            else:
                                self.tags.add("join:on-equi")
                if f.get("join_no_on") and on is not None and kind in ("JOIN", "INNER JOIN") and self.chance(f["join_no_on"]):
                    # a join without criteria (text-level workloads only; several dialects accept it)
                    on = None
                    self.tags.add("join:no-criteria")
                q.joins.append((kind, src, on, using))
                if kind in ("SEMI JOIN", "ANTI JOIN"):
                    continue  # right side not visible afterwards
                if using:
                    # the merged column: unqualified `k` refers to the coalesced column; keep both sides
                    # addressable only through qualification -> mark to always qualify k
                    for s in scope + [src]:
                        s.force_qualify = True
                    q.using_merged = True
                    q.merged_sources = getattr(q, "merged_sources", set()) | {s2.alias for s2 in scope + [src]}
                scope.append(src)
        q.scope = scope
        # WHERE
        if self.chance(0.6):
            q.where = self.bool_expr(scope, self.pick([1, 2, f["expr_depth"]]), subq_ok=depth > 0)
        grouped = f["group"] and self.chance(0.3) and not as_source or (f["group"] and as_source and self.chance(0.2))
        grouped = grouped and not plain_mode
        nproj = self.pick([1, 2, 2, 3])
        names = []
        if grouped:
            self.tags.add("group")
            nkeys = self.pick([0, 1, 1, 2])
            keys = []
            key_scope = scope if f.get("group_derived_expr", True) else [s2 for s2 in scope if s2.kind == "table"]
            for _ in range(nkeys if key_scope else 0):
                c = self.colref(key_scope, self.pick([INT, INT, TEXT]))
                if c is not None and c not in keys:
                    keys.append(c)
            q.group = keys
            for c in keys:
                name = self.new_alias("g")
                q.projs.append((c, name))
                q.out.append((name, c[3], self.prov(c, scope)))
            for _ in range(self.pick([1, 2])):
                agg = self.agg_expr(scope)
                name = self.new_alias("m")
                q.projs.append((agg, name))
                q.out.append((name, INT, self.prov(agg, scope)))
            if f.get("agg_order_by") and keys and self.chance(f["agg_order_by"]):
                # an aggregate with its own ORDER BY over a column that is also an output name of this SELECT (the key is
                # projected under its bare name): inside the aggregate the name means the column, not the output
                kc = keys[0]
                if not any(n == kc[2] for n, _, _ in q.out) and sum(1 for s2 in scope for c2 in s2.cols if c2[0] == kc[2]) == 1:
                    q.projs.append((kc, None))
                    q.out.append((kc[2], kc[3], self.prov(kc, scope)))
                    arg = self.colref(scope, INT) or ("lit", 1, INT)
                    ob = ("col", None, kc[2], kc[3], kc[4])
                    e = ("raw_fn", "ARRAY_AGG", arg, ob, self.chance(0.5))
                    name = self.new_alias("m")
                    q.projs.append((e, name))
                    q.out.append((name, INT, self.prov(arg, scope) | self.prov(ob, scope)))
                    self.tags.add("agg:order-by-inside")
            if f["having"] and self.chance(0.4):
                self.tags.add("group:having")
                q.having = ("bin", self.pick(["=", ">", "<", ">="]), self.agg_expr(scope), ("lit", self.pick([0, 1, 2]), INT))
        else:
            use_star = (f["stars"] and self.chance(0.12) and not getattr(q, "using_merged", False)
                        and (f["stars"] != "single-source" or len(scope) == 1)
                        and (f["stars"] != "base-only" or len(scope) == 1 or all(s2.kind == "table" for s2 in scope)))
            if use_star:
                self.tags.add("star")
                if self.chance(0.5) or len(scope) == 1:
                    dup = len({c[0] for s in scope for c in s.cols}) != sum(len(s.cols) for s in scope)
                    if not dup or not as_source:
                        q.projs.append((("star", None), None))
                        for s in scope:
                            for c in s.cols:
                                q.out.append((c[0], c[1], c[2]))
                if not q.projs:
                    s = self.pick(scope)
                    q.projs.append((("star", s.alias), None))
                    for c in s.cols:
                        q.out.append((c[0], c[1], c[2]))
            if getattr(q, "using_merged", False) and f.get("star_beside_using") and f["stars"] and not as_source and self.chance(f["star_beside_using"]):
                # a qualified star over a source that is *not* part of the USING / NATURAL pair (but may share the merged
                # column's name): it expands to that source's own columns
                outside = [s2 for s2 in scope if s2.alias not in getattr(q, "merged_sources", set())
                           and (f["stars"] != "base-only" or s2.kind == "table")]
                if outside:
                    s2 = self.pick(outside)
                    q.projs.append((("star", s2.alias), None))
                    for c in s2.cols:
                        q.out.append((c[0], c[1], c[2]))
                    self.tags.add("star:qualified-beside-using")
            n_extra = 0 if (q.projs and self.chance(0.5)) else nproj
            for _ in range(n_extra):
                ty = self.pick([INT, INT, TEXT] if f["text"] else [INT])
                if self.chance(0.35):
                    e = self.colref(scope, ty) or ("lit", 1, INT)
                    ty = e[3] if e[0] == "col" else INT
                elif ty == INT:
                    e = self.int_expr(scope, self.pick([1, 2, f["expr_depth"]]))
                else:
                    e = self.text_expr(scope, 2)
                if plain_mode:
                    e = self.colref(scope, ty) or self.colref(scope, INT) or self.colref(scope, TEXT)
                    if e is None:
                        c2, s2 = next((c2, s2) for s2 in scope for c2 in s2.cols)
                        e = ("col", s2.alias, c2[0], c2[1], s2.alias)
                    ty = e[3]
                elif f["window"] and self.chance(0.15) and (not as_source or f.get("derived_window")):
                    e, ty = self.window_expr(scope), INT
                    w = self.rng.random()
                    if w < 0.25:
                        # a window buried inside another expression (guards that look only at the top node miss it)
                        e = ("bin", self.pick(["+", "-", "*"]), e, ("lit", self.pick([0, 1, 2]), INT))
                    elif w < 0.4:
                        e = ("fn", "COALESCE", [e, ("lit", 0, INT)], INT)
                    elif w < 0.5:
                        e = ("case", [(("bin", ">", e, ("lit", 1, INT)), ("lit", 1, INT))], ("lit", 0, INT), INT)
                if f["subq"] and depth > 0 and self.chance(0.06) and not plain_mode:
                    sq = self.scalar_subquery(scope)
                    if sq is not None:
                        e, ty = sq, INT
                if as_source and not f.get("derived_const", True) and not cols_of(e):
                    e = self.colref(scope, ty) or e
                alias = self.new_alias("p")
                if (e[0] == "col" and self.chance(0.3) and not as_source and e[2] not in [n for n, _, _ in q.out]
                        and sum(1 for s2 in scope for c2 in s2.cols if c2[0] == e[2]) == 1):
                    q.projs.append((e, None))
                    q.out.append((e[2], ty, self.prov(e, scope)))
                else:
                    q.projs.append((e, alias))
                    q.out.append((alias, ty, self.prov(e, scope)))
            if f.get("real_div") and self.chance(f["real_div"]):
                # a chain of real-valued divisions / multiplications (a * 1.0 / b / c): zero divisors occur in the data.
                # Projected only (never compared or fed to %), typed INT for ordering purposes
                ops = [self.colref(scope, INT) or ("lit", 1, INT) for _ in range(self.pick([2, 3, 3, 4]))]
                e = ("bin", "*", ops[0], ("raw", "1.0"))
                for o in ops[1:]:
                    o = o if self.chance(0.8) else ("paren", ("bin", "-", o, ("lit", self.pick([0, 1, 2]), INT)))
                    e = ("sdiv", e, o) if self.chance(0.67) else ("bin", "*", e, o)
                alias = self.new_alias("p")
                q.projs.append((e, alias))
                q.out.append((alias, INT, self.prov(e, scope)))
                self.tags.add("arith:real-division-chain")
            for mname, mty, msrcs in (getattr(q, "natural_merged", None) or []):
                # (only while the name is not ambiguous again: no relation joined later carries it too)
                holders = {s2.alias for s2 in scope if any(c2[0] == mname for c2 in s2.cols)}
                if holders == msrcs and self.chance(0.7) and mty in (INT, TEXT):
                    # the merged column of a NATURAL JOIN, un-qualified: it stands for COALESCE(left.c, right.c)
                    e = ("col", None, mname, mty, scope[0].alias)
                    alias = self.new_alias("p")
                    q.projs.append((e, alias))
                    q.out.append((alias, mty, self.prov(e, scope)))
                    self.tags.add("join:natural-merged-column-projected")
            if f["distinct"] and self.chance(0.15):
                q.distinct = True
                self.tags.add("distinct")
        # duplicate output names make a derived table unusable: rename by dropping duplicates
        seen = set()
        for n, _, _ in q.out:
            if n in seen:
                q.dup_out = True
            seen.add(n)
        if as_source and getattr(q, "dup_out", False):
            # regenerate without stars
            saved = dict(self.f)
            self.f["stars"] = False
            try:
                return self.select(depth, as_source=True, ctes=ctes)
            finally:
                self.f = saved
        plain = not grouped and not q.distinct and not any(p[0][0] == "star" for p in q.projs)
        allcols = [("col", s2.alias, c2[0], c2[1], s2.alias) for s2 in scope for c2 in s2.cols]
        # (a window in the projection next to QUALIFY ROW_NUMBER() makes the result depend on how ties between identical
        #  rows are broken: which of them survives the filter decides which running value is shown)
        proj_has_window = any(x[0] == "win" for p in q.projs if isinstance(p[0], tuple) for x in walk_expr(p[0]))
        if top and plain and f["qualify"] and not proj_has_window and self.chance(0.2):
            def wpred():
                part = [c for c in [self.colref(scope, INT)] if c is not None and self.chance(0.8)]
                worder = [(c, self.chance(0.3), self.pick(["first", "last"])) for c in allcols]
                fn = self.pick(["ROW_NUMBER", "ROW_NUMBER", "RANK", "DENSE_RANK"])
                if self.chance(0.25):
                    arg = self.colref(scope, INT) or ("lit", 1, INT)
                    w = ("win", ("agg", self.pick(["SUM", "COUNT", "MAX"]), arg, False), part, [], None)
                    return ("bin", self.pick([">", "<=", "="]), w, ("lit", self.pick([0, 1, 2, 3]), INT))
                w = ("win", ("fn", fn, [], INT), part, worder, None)
                return ("bin", self.pick(["<=", "=", "<", ">"]), w, ("lit", self.pick([1, 2]), INT))

            qp = wpred()
            if self.chance(0.45):
                qp = ("bin", self.pick(["AND", "OR"]), qp, wpred())
                self.tags.add("win:qualify-two-windows")
            if self.chance(0.2) and f.get("qualify_plain_pred"):
                # listed finding (C02 probe): a plain predicate on qualified columns inside QUALIFY
                qp = ("bin", "AND", qp, self.cmp_expr(scope, 1))
            q.qualify = qp
            self.tags.add("win:qualify")
        elif top and plain and f["distinct_on"] and self.chance(0.2) and not proj_has_window and not any(
                isinstance(p[0], tuple) and p[0][0] in ("win", "scalar") for p in q.projs):
            key = self.colref(scope, INT)
            if key is not None:
                key = ("col", key[4], key[2], key[3], key[4])
                if f.get("alias_shadow") and self.chance(0.5):
                    # an explicit alias that is also the name of a column in scope - preferably the name of a later,
                    # un-aliased projection (`a AS b, b`): rewrites that wrap the query must keep the two apart
                    idxs = [i2 for i2, (e2, a2) in enumerate(q.projs) if a2 is not None]
                    if idxs:
                        i2 = self.pick(idxs)
                        later = [e2[2] for e2, a2 in q.projs[i2 + 1:] if a2 is None and e2[0] == "col"]
                        names2 = later if later and self.chance(0.7) else [c2[0] for s2 in scope for c2 in s2.cols]
                        new = self.pick(names2)
                        if new not in [a2 for _, a2 in q.projs if a2]:
                            q.projs[i2] = (q.projs[i2][0], new)
                            q.out[i2] = (new,) + tuple(q.out[i2][1:])
                            self.tags.add("alias:shadows-column")
                q.distinct_on = [key]
                q.order = [(key, self.chance(0.3), self.pick(["first", "last"]))] + [
                    (c, self.chance(0.3), self.pick(["first", "last"])) for c in allcols]
                q.order_total = True
                self.tags.add("distinct-on")
                q.tags = set(self.tags)
                return q
        if top or (as_source and self.chance(0.15) and f["limit"]):
            self.add_order(q, scope, top=top, as_source=as_source)
        q.tags = set(self.tags)
        return q

    def prov(self, e, scope):
        by_alias = {s.alias: s for s in scope}
        out = set()
        refs = cols_of(e)
        self._sub_prov(e, out)
        for tup in refs:
            alias, name = tup
            srcs = [by_alias[alias]] if alias in by_alias else [s for s in scope if any(c[0] == name for c in s.cols)]
            for s in srcs:
                for c in s.cols:
                    if c[0] == name:
                        out |= c[2]
        return frozenset(out)

    def _sub_prov(self, e, out):
        """scalar subqueries contribute the provenance of their own projection."""
        if not isinstance(e, tuple):
            return
        if e[0] == "scalar":
            for n, ty, p in e[1].out:
                out |= p
            return
        for x in e[1:]:
            if isinstance(x, tuple):
                self._sub_prov(x, out)
            elif isinstance(x, list):
                for y in x:
                    if isinstance(y, tuple):
                        self._sub_prov(y, out)


    def agg_expr(self, scope):
        name = self.pick(["SUM", "COUNT", "MIN", "MAX", "AVG", "COUNT"])
        if name == "AVG" and not self.f.get("avg", True):
            # AVG yields non-integers, on which the engines' %, CAST(.. AS TEXT) and integer contexts disagree among themselves
            name = "SUM"
        self.tags.add("agg:" + name.lower())
        if name == "COUNT" and self.chance(0.4):
            return ("agg", "COUNT", "*", False)
        arg = self.int_expr(scope, 1)
        distinct = self.f["agg_distinct"] and name in ("COUNT", "SUM") and self.chance(0.2)
        return ("agg", name, arg, distinct)

    def window_expr(self, scope):
        self.tags.add("window")
        fn = self.pick(["SUM", "COUNT", "MIN", "MAX", "ROW_NUMBER", "RANK"])
        part = [c for c in [self.colref(scope, INT)] if c is not None and self.chance(0.6)]
        # total order inside the window so that results are deterministic
        order = [(("col", s.alias, c[0], c[1], s.alias), self.chance(0.3), self.pick(["first", "last"])) for s in scope for c in s.cols]
        if fn in ("ROW_NUMBER", "RANK"):
            return ("win", ("fn", fn, [], INT), part, order, None)
        arg = self.int_expr(scope, 1)
        frame = self.pick([None, "ROWS BETWEEN UNBOUNDED PRECEDING AND CURRENT ROW", "ROWS BETWEEN 1 PRECEDING AND 1 FOLLOWING"])
        if self.chance(0.4):
            return ("win", ("agg", fn, arg, False), part, [], None)
        return ("win", ("agg", fn, arg, False), part, order, frame)

    def _subq_table(self):
        if not self.f.get("self_join", True):
            used = getattr(self, "_scope_tables", set())
            cands = [t for t in self.tables if t.name not in used]
            if cands:
                return self.pick(cands)
        return self.pick(self.tables)

    def scalar_subquery(self, scope):
        if self.f.get("scalar_subq_max") is not None:
            if getattr(self, "_n_scalar", 0) >= self.f["scalar_subq_max"]:
                return None
            self._n_scalar = getattr(self, "_n_scalar", 0) + 1
        t = self._subq_table()
        src = self.base_source(t)
        src.force_qualify = True
        q = Query()
        q.from_ = src
        ic = self.colref([src], INT)
        oc = self.colref(scope, INT)
        if ic is None:
            return None
        if oc is not None and self.f["correlated"] and self.chance(0.6):
            oc = ("col", oc[4], oc[2], INT, oc[4])
            q.where = ("bin", "=", self.colref([src], INT), oc)
            self.tags.add("sub:correlated")
        agg = ("agg", self.pick(["MAX", "MIN", "SUM", "COUNT"]), ic, False)
        if self.f.get("agg_arith") and self.chance(self.f["agg_arith"]):
            # the value is an expression over the aggregate (for an outer row without a match COUNT(..) + 1 is 1, not NULL or 0)
            agg = ("bin", self.pick(["+", "-"]), agg, ("lit", self.pick([1, 2]), INT)) if self.chance(0.6) else ("bin", "-", ("lit", 7, INT), agg)
            self.tags.add("sub:scalar-agg-arith")
        q.projs = [(agg, None)]
        q.out = [("_", INT, self.prov(ic, [src]))]
        self.tags.add("sub:scalar-proj")
        if self.f.get("scalar_setop") and self.chance(0.35):
            # body is a set operation (text-level checks only: it may yield more than one row at run time)
            t2 = self._subq_table()
            src2 = self.base_source(t2)
            src2.force_qualify = True
            ic2 = self.colref([src2], INT)
            if ic2 is not None:
                b = Query()
                b.from_ = src2
                b.projs = [(("agg", self.pick(["MAX", "MIN"]), ic2, False), None)]
                b.out = [("_", INT, self.prov(ic2, [src2]))]
                q.setops.append((self.pick(["UNION", "UNION ALL", "INTERSECT", "EXCEPT"]), b))
                q.out = [("_", INT, q.out[0][2] | b.out[0][2])]
                self.tags.add("sub:scalar-setop")
        return ("scalar", q)

    def add_order(self, q, scope, top, as_source):
        f = self.f
        if not f["order"]:
            return
        if not (self.chance(0.6) or as_source):
            return
        if q.distinct and not f.get("distinct_order", True):
            return
        # ORDER BY the output columns (by alias), all of them => total order on the result
        names = [n for n, _, _ in q.out]
        if len(set(names)) != len(names) or any(p[0][0] == "star" for p in q.projs):
            if as_source:
                return
            if len(set(names)) != len(names) and not f.get("star_dup_order", True):
                return
            # order by ordinals
            keys = [str(i + 1) for i in range(len(names))]
        else:
            keys = list(names)
        self.rng.shuffle(keys)
        order = []
        for kname in keys:
            desc = self.pick([None, None, True, False])
            nulls = self.pick([None, "first", "last"]) if f["nulls_order"] else None
            if f["nulls_order"] == "explicit":
                nulls = self.pick(["first", "last"])
            order.append((kname, desc if desc is not None else None, nulls if nulls else ("explicit-asc" if desc is False else None)))
            if nulls:
                self.tags.add("order:nulls-" + nulls)
            else:
                self.tags.add("order:default-nulls")
        q.order = order
        q.order_total = True
        self.tags.add("order")
        force_limit = as_source and not f.get("derived_order_nolimit", True)
        if f["limit"] and (self.chance(0.5) or force_limit) and (q.qualify is None or f.get("qualify_limit")):
            q.limit = self.pick([0, 1, 2, 3, 5])
            self.tags.add("limit")
            if f["offset"] and self.chance(0.4):
                q.offset = self.pick([0, 1, 2])
                self.tags.add("offset")

    # -- top level -------------------------------------------------------------------
    def query(self):
        f = self.f
        for _ in range(20):
            self.tags = set()
            self._n_scalar = 0
            q = self.select(top=True)
            if f["setops"] and self.chance(0.18):
                q = self.setop_query()
            q.tags = set(self.tags)
            if f.get("same_col_const_pair", True) or not any(_const_pair(e) for e in query_exprs(q)):
                return q
        return q

    def setop_query(self, as_source=False):
        f = self.f
        ncols = self.pick([1, 2])
        names = [self.new_alias("u") for _ in range(ncols)] if as_source else [f"u{i + 1}" for i in range(ncols)]
        types = [self.pick([INT, INT, TEXT]) for _ in range(ncols)]
        ops = ["UNION", "UNION ALL", "INTERSECT", "EXCEPT"]
        if f["setops_all"]:
            ops += ["INTERSECT ALL", "EXCEPT ALL"]
        branches = []
        for b in range(self.pick([2, 2, 3])):
            t = self.pick(self.tables)
            src = self.base_source(t)
            sq = Query()
            sq.from_ = src
            sc = [src]
            for i, ty in enumerate(types):
                e = self.colref(sc, ty) or ("lit", 1 if ty == INT else "x", ty)
                if self.chance(0.3) and ty == INT and not (as_source and self._plain):
                    e = self.int_expr(sc, 1)
                name = names[i]
                sq.projs.append((e, name))
                sq.out.append((name, ty, self.prov(e, sc)))
            if self.chance(0.4):
                sq.where = self.bool_expr(sc, 1)
            branches.append(sq)
        q = branches[0]
        op = self.pick(ops)
        # UNION / UNION ALL / EXCEPT [ALL] share one precedence level and associate to the left in both engines, so a
        # chain may mix them; INTERSECT binds tighter in DuckDB but not in SQLite, so it is never mixed with the others
        mixable = [o for o in ops if not o.startswith("INTERSECT")]
        for b in branches[1:]:
            this_op = self.pick(mixable) if (op in mixable and f.get("mixed_setops", True) and self.chance(0.6)) else op
            q.setops.append((this_op, b))
            q.out = [(n, ty, p | b.out[i][2]) for i, (n, ty, p) in enumerate(q.out)]
        self.tags.add("set:" + op.lower().replace(" ", "-"))
        if as_source:
            q.tags = set(self.tags)
            return q
        if self.chance(0.7):
            keys = [n for n, _, _ in q.out]
            q.order = [(k, self.pick([None, True]), (self.pick(["first", "last"]) if f["nulls_order"] == "explicit" else
                                                      self.pick([None, "first", "last"])) if f["nulls_order"] else None) for k in keys]
            q.order_total = True
            if f["limit"] and self.chance(0.4):
                q.limit = self.pick([1, 2, 3])
        return q


# ---------------------------------------------------------------------------------
# walking a query (used by trigger filters)
# ---------------------------------------------------------------------------------


def walk_expr(e):
    if not isinstance(e, tuple):
        return
    yield e
    for x in e[1:]:
        if isinstance(x, tuple):
            if x and isinstance(x[0], str):
                yield from walk_expr(x)
            else:
                for z in x:
                    yield from walk_expr(z)
        elif isinstance(x, list):
            for y in x:
                if isinstance(y, tuple) and y and isinstance(y[0], str):
                    yield from walk_expr(y)
                elif isinstance(y, tuple):
                    for z in y:
                        yield from walk_expr(z)
        elif isinstance(x, Query):
            yield from query_exprs(x)


def query_exprs(q):
    """every expression node of a query, including nested queries"""
    for _, cq, _ in q.ctes:
        yield from query_exprs(cq)
    for e, _ in q.projs:
        yield from walk_expr(e)
    for src in [q.from_] + [j[1] for j in q.joins]:
        if src is not None and src.kind == "derived":
            yield from query_exprs(src.query)
    for j in q.joins:
        if j[2] is not None:
            yield from walk_expr(j[2])
    for e in (q.where, q.having, q.qualify):
        if e is not None:
            yield from walk_expr(e)
    for e in q.group:
        yield from walk_expr(e)
    for _, b in q.setops:
        yield from query_exprs(b)


def _cmp_col_const(e):
    """comparison of a bare column with a literal -> the column's (alias-or-None, name), else None"""
    while e[0] == "paren":
        e = e[1]
    if e[0] == "bin" and BINOPS.get(e[1]) == "cmp":
        l, r = e[2], e[3]
        if l[0] == "col" and r[0] == "lit":
            return l[2]
        if r[0] == "col" and l[0] == "lit":
            return r[2]
    if e[0] == "between" and e[1][0] == "col":
        return e[1][2]
    return None


def _conjuncts(e):
    while e[0] == "paren":
        e = e[1]
    if e[0] == "bin" and e[1] == "AND":
        return _conjuncts(e[2]) + _conjuncts(e[3])
    return [e]


def _juncts(e, op):
    while e[0] == "paren":
        e = e[1]
    if e[0] == "bin" and e[1] == op:
        return _juncts(e[2], op) + _juncts(e[3], op)
    return [e]


def _const_pair(e):
    """AND / OR with two comparisons of the same column against literals (listed findings: simplify folds a
    contradictory AND pair to FALSE, losing NULL; and merges an OR pair to the wrong bound)"""
    if not (e[0] == "bin" and e[1] == "AND"):   # the OR case was repaired (KNOWN_FINDINGS.txt, fixed: e1bcff0)
        return False
    names = [n for n in (_cmp_col_const(c) for c in _juncts(e, e[1])) if n]
    return len(names) != len(set(names))


# ---------------------------------------------------------------------------------
# presentation variants (C17): derived tables hoisted into CTEs
# ---------------------------------------------------------------------------------


def hoist_derived(q, prof="portable"):
    """-> (main_sql, [(cte_name, cte_sql), ...]) with every derived table (and every WITH entry) of q turned into a
    named query, inner ones first. main_sql has no WITH clause and refers to the names."""
    import copy as _copy

    q = _copy.deepcopy(q)
    out = []

    def process(query):
        for name, cq, colnames in query.ctes:
            process(cq)
            body = cq.render(prof)
            if colnames:
                # a column list renames the outputs: express it with a wrapping select so that a plain name suffices
                inner = ", ".join(f"{n} AS {c}" for (n, _, _), c in zip(cq.out, colnames))
                body = f"SELECT {inner} FROM ({body}) AS _r"
            out.append((name, body))
        query.ctes = []
        for src in [query.from_] + [j[1] for j in query.joins]:
            if src is not None and src.kind == "derived":
                process(src.query)
                out.append((src.alias, src.query.render(prof)))
                src.kind, src.name, src.query = "cte", src.alias, None
        for _, b in query.setops:
            process(b)

    process(q)
    return q.render(prof), out

"""Shrinker for (Query, data) cases: greedy delta debugging along the query's own structure."""
from __future__ import annotations

import copy

from . import sqlgen


def _expr_children(e):
    out = []
    if not isinstance(e, tuple):
        return out
    for x in e[1:]:
        if isinstance(x, tuple) and x and isinstance(x[0], str) and x[0] in _KINDS:
            out.append(x)
        elif isinstance(x, list):
            for y in x:
                if isinstance(y, tuple) and y and isinstance(y[0], str) and y[0] in _KINDS:
                    out.append(y)
                elif isinstance(y, tuple):  # case whens: (cond, val)
                    for z in y:
                        if isinstance(z, tuple) and z and isinstance(z[0], str) and z[0] in _KINDS:
                            out.append(z)
    return out


_KINDS = {"col", "lit", "raw", "paren", "bin", "neg", "not", "fn", "agg", "case", "between", "inlist", "isnull",
          "like", "cast", "insub", "exists", "scalar", "anysub", "win", "strftime"}
_BOOL_KINDS = {"not", "between", "inlist", "isnull", "like", "insub", "exists", "anysub"}


def _is_bool(e):
    if e[0] in _BOOL_KINDS:
        return True
    if e[0] == "bin":
        return e[1] in ("AND", "OR", "=", "<>", "<", "<=", ">", ">=", "!=")
    if e[0] == "paren":
        return _is_bool(e[1])
    return False


def _variants_query(q):
    """yield (description, mutated deep copy)"""
    def cp():
        return copy.deepcopy(q)

    if q.limit is not None or q.offset is not None:
        c = cp(); c.limit = None; c.offset = None
        yield "drop-limit", c
    if q.order and q.limit is None and not q.distinct_on:
        c = cp(); c.order = []; c.order_total = False
        yield "drop-order", c
    if q.where is not None:
        c = cp(); c.where = None
        yield "drop-where", c
        for ch in _expr_children(q.where):
            if _is_bool(ch):
                c = cp(); c.where = copy.deepcopy(ch)
                yield "where-child", c
    if q.having is not None:
        c = cp(); c.having = None
        yield "drop-having", c
    if q.qualify is not None:
        c = cp(); c.qualify = None
        yield "drop-qualify", c
    if q.distinct:
        c = cp(); c.distinct = False
        yield "drop-distinct", c
    if q.setops:
        for i in range(len(q.setops)):
            c = cp(); del c.setops[i]
            yield "drop-setop", c
    if q.joins:
        c = cp(); c.joins.pop()
        yield "drop-last-join", c
        for i, (kind, src, on, using) in enumerate(q.joins):
            if on is not None and on[0] == "bin" and on[1] == "AND":
                for side in (2, 3):
                    c = cp(); j = c.joins[i]; c.joins[i] = (j[0], j[1], copy.deepcopy(on[side]), j[3])
                    yield "join-on-child", c
            if kind not in ("JOIN", "CROSS JOIN"):
                c = cp(); j = c.joins[i]; c.joins[i] = ("JOIN", j[1], j[2], j[3])
                yield "join-to-inner", c
    if len(q.projs) > 1 and not q.order and not q.setops:
        for i in range(len(q.projs)):
            if q.projs[i][0][0] == "star":
                continue
            c = cp()
            del c.projs[i]
            if len(c.out) == len(q.projs):
                del c.out[i]
            yield "drop-proj", c
    for i, (e, alias) in enumerate(q.projs):
        if e[0] == "star":
            continue
        for ch in _expr_children(e):
            if ch[0] in ("col", "lit") or not _is_bool(ch):
                c = cp(); c.projs[i] = (copy.deepcopy(ch), alias)
                yield "proj-child", c
    if q.ctes:
        for i in range(len(q.ctes)):
            c = cp(); del c.ctes[i]
            yield "drop-cte", c
    if q.from_ is not None and q.from_.kind == "derived" and not q.joins:
        yield "lift-derived", copy.deepcopy(q.from_.query)
    if q.from_ is not None and q.from_.kind == "derived":
        for d, sub in _variants_query(q.from_.query):
            c = cp(); c.from_.query = sub
            yield "derived:" + d, c
    for i, (kind, src, on, using) in enumerate(q.joins):
        if src.kind == "derived":
            for d, sub in _variants_query(src.query):
                c = cp(); c.joins[i][1].query = sub
                yield "joinderived:" + d, c
    for i, (name, cq, cols) in enumerate(q.ctes):
        for d, sub in _variants_query(cq):
            c = cp(); c.ctes[i] = (name, sub, cols)
            yield "cte:" + d, c


def shrink(q, data, fails, max_steps=400):
    """fails(q, data) -> bool (must be True for the input). Returns (q, data, steps)."""
    steps = 0
    progress = True
    while progress and steps < max_steps:
        progress = False
        # rows first (cheap and very effective)
        for t in list(data):
            i = 0
            while i < len(data[t]):
                d2 = {k: list(v) for k, v in data.items()}
                del d2[t][i]
                steps += 1
                ok = False
                try:
                    ok = fails(q, d2)
                except Exception:
                    ok = False
                if ok:
                    data = d2
                    progress = True
                else:
                    i += 1
        for desc, c in _variants_query(q):
            steps += 1
            ok = False
            try:
                c.render("duckdb")
                ok = fails(c, data)
            except Exception:
                ok = False
            if ok:
                q = c
                progress = True
                break
            if steps >= max_steps:
                break
    return q, data, steps

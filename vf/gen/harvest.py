"""Dialect-specific SQL texts harvested from the repository's own test modules.

Workload vocabulary only: every string constant of tests/dialects/test_<dialect>.py that looks like SQL. What the tests
assert about these strings is never read; the checks apply their own oracles. If the tests directory is absent the corpus
is empty and the callers' counters show it."""
from __future__ import annotations

import ast
import os

from ..common import REPO

_cache = {}


def harvested(dialect, min_len=8, max_len=300):
    """-> (texts, found)"""
    key = (dialect, min_len, max_len)
    if key in _cache:
        return _cache[key]
    out = []
    path = os.path.join(REPO, "tests", "dialects", f"test_{dialect}.py")
    try:
        with open(path, encoding="utf-8") as f:
            tree = ast.parse(f.read())
    except (OSError, SyntaxError):
        _cache[key] = (out, False)
        return _cache[key]
    seen = set()
    for node in ast.walk(tree):
        if isinstance(node, ast.Constant) and isinstance(node.value, str):
            v = node.value.strip()
            if min_len <= len(v) <= max_len and " " in v and v not in seen and "\n" not in v:
                seen.add(v)
                out.append(v)
    _cache[key] = (out, True)
    return _cache[key]

import sqlglot, random, duckdb, sys, collections, logging, itertools
from sqlglot import exp
from sqlglot.optimizer.simplify import simplify
from sqlglot.optimizer.normalize import normalize, normalized
from sqlglot.optimizer.annotate_types import annotate_types
logging.disable(logging.CRITICAL)
random.seed(int(sys.argv[1]) if len(sys.argv)>1 else 0)
N=int(sys.argv[2]) if len(sys.argv)>2 else 500
con=duckdb.connect()
ints=[None,-1,0,1,2,3]
bools=[None,True,False]
con.execute("create table t(a int, b int, p boolean, q boolean)")
rows=list(itertools.product(ints,ints,bools,bools))
con.executemany("insert into t values (?,?,?,?)", rows)
schema={"t":{"a":"INT","b":"INT","p":"BOOLEAN","q":"BOOLEAN"}}
def gi(d):
    r=random.random()
    if d<=0 or r<0.35: return random.choice(["a","b","0","1","2","3","-1","NULL"])
    if r<0.6: return f"({gi(d-1)} {random.choice('+-*')} {gi(d-1)})"
    if r<0.7: return f"COALESCE({gi(d-1)}, {gi(d-1)})"
    if r<0.8: return f"CASE WHEN {gb(d-1)} THEN {gi(d-1)} ELSE {gi(d-1)} END"
    if r<0.85: return f"-{gi(d-1)}"
    return gi(d-1)
def gb(d):
    r=random.random()
    if d<=0 or r<0.2: return random.choice(["p","q","TRUE","FALSE","NULL","a = 1","a < b","b >= 2"])
    if r<0.4: return f"({gb(d-1)} AND {gb(d-1)})"
    if r<0.6: return f"({gb(d-1)} OR {gb(d-1)})"
    if r<0.7: return f"NOT {gb(d-1)}"
    if r<0.8: return f"{gi(d-1)} {random.choice(['=','<>','<','<=','>','>='])} {gi(d-1)}"
    if r<0.85: return f"{gi(d-1)} BETWEEN {gi(d-1)} AND {gi(d-1)}"
    if r<0.9: return f"{gi(d-1)} IS {random.choice(['','NOT '])}NULL"
    if r<0.95: return f"{gi(d-1)} IN ({gi(d-1)}, {gi(d-1)})"
    return f"CASE WHEN {gb(d-1)} THEN {gb(d-1)} ELSE {gb(d-1)} END"
def ev(sql):
    return con.execute(f"select {sql} from t order by rowid").fetchall()
bad=collections.Counter(); ex={}
for i in range(N):
    s=gb(random.randint(1,4))
    try: base=ev(s)
    except Exception as e: bad['orig-engine-error:'+type(e).__name__]+=1; continue
    for mode in ('untyped','typed'):
        e=sqlglot.parse_one(f"SELECT {s} AS r FROM t", read='duckdb')
        if mode=='typed':
            from sqlglot.optimizer.qualify import qualify
            e=annotate_types(qualify(e,schema=schema,dialect='duckdb'),schema=schema,dialect='duckdb')
        try:
            out=simplify(e, dialect='duckdb')
            s2=out.selects[0].unalias().sql('duckdb')
        except Exception as x:
            bad[f'{mode}-simplify-exc:'+type(x).__name__]+=1; ex.setdefault(f'{mode}-exc',(s,repr(x))); continue
        try: r2=ev(s2)
        except Exception as x:
            bad[f'{mode}-engine-error']+=1; ex.setdefault(f'{mode}-engine-error',(s,s2,str(x)[:100])); continue
        if r2!=base:
            bad[f'{mode}-MISMATCH']+=1; ex.setdefault(f'{mode}-MISMATCH',[]).append((s,s2)) if isinstance(ex.get(f'{mode}-MISMATCH'),list) else ex.setdefault(f'{mode}-MISMATCH',[(s,s2)])
    for dnf in (False,True):
        e=sqlglot.parse_one(s, read='duckdb')
        try:
            out=normalize(e, dnf=dnf)
            s2=out.sql('duckdb')
            r2=ev(s2)
            if r2!=base: bad[f'norm{dnf}-MISMATCH']+=1; ex.setdefault(f'norm{dnf}',(s,s2))
        except Exception as x:
            bad[f'norm-exc:{type(x).__name__}']+=1; ex.setdefault('norm-exc',(s,repr(x)[:200]))
print(bad)
for k,v in ex.items(): print(k, v if not isinstance(v,list) else v[:4])

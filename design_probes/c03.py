import sqlglot, random, duckdb, sys, collections, logging
from sqlglot.optimizer import optimize, optimizer
from sqlglot.errors import SqlglotError
logging.disable(logging.CRITICAL)
random.seed(int(sys.argv[1]) if len(sys.argv)>1 else 0)
N=int(sys.argv[2]) if len(sys.argv)>2 else 300
schema={'t':{'a':'INT','b':'INT','s':'TEXT'},'u':{'a':'INT','c':'INT'},'v':{'c':'INT','d':'INT'}}
def mkdata():
    vals=[None,0,1,2,3]
    return {'t':[(random.choice(vals),random.choice(vals),random.choice([None,'x','y'])) for _ in range(random.randint(0,5))],
       'u':[(random.choice(vals),random.choice(vals)) for _ in range(random.randint(0,4))],
       'v':[(random.choice(vals),random.choice(vals)) for _ in range(random.randint(0,4))]}
def ie(cols):
    r=random.random()
    if r<0.55: return random.choice(cols)
    if r<0.7: return str(random.choice([0,1,2]))
    if r<0.9: return f"({ie(cols)} {random.choice('+-*')} {ie(cols)})"
    return f"COALESCE({ie(cols)}, {ie(cols)})"
def be(cols,d=2):
    r=random.random()
    if d==0 or r<0.45: return f"{ie(cols)} {random.choice(['=','<>','<','<=','>','>='])} {ie(cols)}"
    if r<0.6: return f"({be(cols,d-1)} AND {be(cols,d-1)})"
    if r<0.7: return f"({be(cols,d-1)} OR {be(cols,d-1)})"
    if r<0.8: return f"NOT {be(cols,d-1)}"
    if r<0.9: return f"{ie(cols)} IS {random.choice(['','NOT '])}NULL"
    return f"{ie(cols)} IN ({ie(cols)}, {ie(cols)})"
def sub(kind,outer):
    if kind=='in': return f"{random.choice(outer)} {random.choice(['IN','NOT IN'])} (SELECT v.c FROM v WHERE {be(['v.c','v.d'],1)})"
    if kind=='exists': return f"{random.choice(['','NOT '])}EXISTS (SELECT 1 FROM v WHERE v.c = {random.choice(outer)} AND {be(['v.c','v.d'],0)})"
    if kind=='scalar': return f"{random.choice(outer)} {random.choice(['=','<','>'])} (SELECT MAX(v.d) FROM v WHERE v.c = {random.choice(outer)})"
    return f"{random.choice(outer)} > ANY (SELECT v.c FROM v)"
def q():
    r=random.random()
    tc=['t.a','t.b']; uc=['u.a','u.c']
    if r<0.2:
        return f"SELECT {ie(tc)} AS x, t.s AS s FROM t WHERE {be(tc)} AND {sub(random.choice(['in','exists','scalar','any']),tc)}"
    if r<0.45:
        jt=random.choice(['JOIN','LEFT JOIN','RIGHT JOIN','FULL JOIN','CROSS JOIN'])
        on='' if jt=='CROSS JOIN' else f" ON {random.choice(['t.a = u.a', 't.a = u.a AND '+be(tc+uc,1), be(tc+uc,1)])}"
        return f"SELECT {ie(tc+uc)} AS x, t.b AS b, u.c AS c FROM t {jt} u{on} WHERE {be(tc+uc,1)}"
    if r<0.6:
        return f"SELECT q.x AS x, q.b AS b FROM (SELECT {ie(tc)} AS x, t.b AS b FROM t WHERE {be(tc,1)}{random.choice(['',' LIMIT 2',''])}) AS q {random.choice(['JOIN','LEFT JOIN'])} u ON q.b = u.a WHERE {be(['q.x','q.b','u.c'],1)}"
    if r<0.75:
        return f"WITH c AS (SELECT t.a AS a, {random.choice(['SUM','COUNT','MIN','MAX'])}({ie(tc)}) AS m FROM t GROUP BY t.a) SELECT c1.a AS a, c1.m AS m, c2.m AS m2 FROM c AS c1 {random.choice(['JOIN','LEFT JOIN'])} c AS c2 ON c1.a = c2.m WHERE {be(['c1.a','c1.m'],1)}"
    if r<0.85:
        return f"SELECT t.a AS a, {random.choice(['SUM','COUNT','MIN','MAX'])}({ie(tc)}) AS x, COUNT(*) AS n FROM t LEFT JOIN u ON t.a = u.a GROUP BY t.a HAVING {be(['t.a','COUNT(*)'],1)}"
    if r<0.93:
        return f"SELECT t.a AS a FROM t WHERE {be(tc,1)} {random.choice(['UNION','UNION ALL','INTERSECT','EXCEPT'])} SELECT u.a AS a FROM u WHERE {be(uc,1)}"
    return f"SELECT DISTINCT t.a AS a, SUM(t.b) OVER (PARTITION BY t.a) AS w FROM t WHERE {be(tc,1)}"
def norm(rows): return sorted([tuple(r) for r in rows], key=repr)
cnt=collections.Counter(); ex=collections.defaultdict(list)
for i in range(N):
    data=mkdata(); sql=q()
    con=duckdb.connect()
    for t,cols in schema.items():
        con.execute(f"create table {t} ({', '.join(f'{c} {ty}' for c,ty in cols.items())})")
        if data[t]: con.executemany(f"insert into {t} values ({','.join('?'*len(cols))})", data[t])
    try: r0=norm(con.execute(sql).fetchall())
    except Exception as e: cnt['orig-engine-err']+=1; ex['orig-engine-err'].append((sql,str(e)[:100])); continue
    try: o=optimize(sql, schema=schema, dialect='duckdb'); s1=o.sql('duckdb')
    except SqlglotError as e: cnt['opt-SqlglotError']+=1; ex['opt-SqlglotError'].append((sql,str(e)[:100])); continue
    except Exception as e: cnt['opt-internal:'+type(e).__name__]+=1; ex['opt-internal'].append((sql,repr(e)[:100])); continue
    try: r1=norm(con.execute(s1).fetchall())
    except Exception as e: cnt['opt-engine-err']+=1; ex['opt-engine-err'].append((sql,s1,str(e)[:150])); continue
    if r0!=r1: cnt['MISMATCH']+=1; ex['MISMATCH'].append((sql,s1,data,r0,r1))
    else: cnt['ok']+=1
print(cnt)
for k,v in ex.items():
    for m in v[:30]: print(k, repr(m[0])[:300])

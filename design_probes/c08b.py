import sqlglot, collections, logging, sys
from sqlglot import exp
from sqlglot.optimizer import optimizer, optimize
from sqlglot.optimizer.qualify import qualify
from c08 import check
logging.disable(logging.CRITICAL)
sys.path.insert(0,'/repo')
from tests.helpers import load_sql_fixture_pairs, TPCH_SCHEMA, TPCDS_SCHEMA, load_sql_fixtures
schema={"x":{"a":"INT","b":"INT"},"y":{"b":"INT","c":"INT"},"z":{"b":"INT","c":"INT"},"w":{"d":"TEXT","e":"TEXT"},"temporal":{"d":"DATE","t":"TIMESTAMP"}, "structs":{"one":"STRUCT<a_1 INT, b_1 VARCHAR>"}}
cnt=collections.Counter(); ex={}
import glob,os
n=0
for f in ['optimizer','qualify_columns','merge_subqueries','pushdown_predicates','pushdown_projections','unnest_subqueries','eliminate_joins','eliminate_subqueries','eliminate_ctes','optimize_joins','simplify','normalize','canonicalize']:
    for meta, sql, expected in load_sql_fixture_pairs(f"optimizer/{f}.sql"):
        d=meta.get('dialect')
        try: e=sqlglot.parse_one(sql, read=d)
        except Exception: continue
        cur=e
        for rule in optimizer.RULES:
            kwargs={}
            import inspect
            params=inspect.signature(rule).parameters
            if 'schema' in params: kwargs['schema']=schema
            if 'dialect' in params: kwargs['dialect']=d
            try:
                cur=rule(cur, **kwargs)
            except Exception as ex_:
                break
            n+=1
            hash(cur)
            for p in check(cur):
                key=(rule.__name__,)+p
                cnt[key]+=1; ex.setdefault(key,(sql[:150],d))
print(n,'rule applications')
for k,v in cnt.most_common(40): print(v,k,ex[k])

import sqlglot, collections, logging, sys
from sqlglot import exp
from sqlglot.errors import ErrorLevel, SqlglotError
from sqlglot.dialects import DIALECTS
logging.disable(logging.CRITICAL)
ds=[""]+[d.lower() for d in DIALECTS]
seeds=[l.strip() for l in open('/repo/tests/fixtures/identity.sql') if l.strip() and not l.startswith('--')]
cnt=collections.Counter(); ex=collections.defaultdict(list); tot=collections.Counter()
for s in seeds:
    for d in ds:
        try: t=sqlglot.parse_one(s, read=d)
        except SqlglotError: continue
        except Exception as e: cnt[(d,'parse-internal')]+=1; continue
        tot[d]+=1
        try: s1=t.sql(dialect=d, unsupported_level=ErrorLevel.IGNORE)
        except Exception as e: cnt[(d,'gen1-'+type(e).__name__)]+=1; ex[(d,'gen1')].append(s); continue
        try: t1=sqlglot.parse_one(s1, read=d)
        except Exception as e: cnt[(d,'reparse-'+type(e).__name__)]+=1; ex[(d,'reparse')].append((s,s1)); continue
        try: s2=t1.sql(dialect=d, unsupported_level=ErrorLevel.IGNORE)
        except Exception as e: cnt[(d,'gen2')]+=1; continue
        if s1!=s2: cnt[(d,'nonidem')]+=1; ex[(d,'nonidem')].append((s,s1,s2))
        if d=="" and t!=t1: cnt[(d,'tree-neq')]+=1; ex[(d,'tree-neq')].append((s,s1))
for d in ds:
    print(d or 'base', tot[d], {k[1]:v for k,v in cnt.items() if k[0]==d})
import json
json.dump({f"{k[0]}|{k[1]}":v[:5] for k,v in ex.items()}, open('c01_ex.json','w'), indent=1)

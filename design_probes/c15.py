import sqlglot, sys, hashlib, logging, random, json
sys.path.insert(0,'/repo')
from sqlglot.optimizer import optimize
from sqlglot.errors import SqlglotError
from tests.helpers import load_sql_fixture_pairs
logging.disable(logging.CRITICAL)
schema={"x":{"a":"INT","b":"INT"},"y":{"b":"INT","c":"INT"},"z":{"b":"INT","c":"INT"},"w":{"d":"TEXT","e":"TEXT"}}
cases=[]
for f in ['optimizer','simplify','normalize','merge_subqueries','pushdown_predicates','optimize_joins','eliminate_subqueries','unnest_subqueries']:
    for meta, sql, expected in load_sql_fixture_pairs(f"optimizer/{f}.sql"):
        cases.append((f,meta.get('dialect'),sql))
order=list(range(len(cases)))
if len(sys.argv)>1 and sys.argv[1]!='0': random.Random(int(sys.argv[1])).shuffle(order)
out={}
for i in order:
    f,d,sql=cases[i]
    try: out[i]=optimize(sql, schema=schema, dialect=d).sql(d, pretty=False)
    except Exception as e: out[i]='ERR:'+type(e).__name__+str(e)[:80]
json.dump(out, open(sys.argv[2],'w'), sort_keys=True)

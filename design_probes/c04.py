import sqlglot, itertools, random, collections
from sqlglot import exp
from sqlglot.dialects.dialect import Dialect
from sqlglot.tokens import TokenType
from sqlglot.dialects import DIALECTS
ds = [""] + [d.lower() for d in DIALECTS]
atoms = ["a","'","''","\\","\\\\","\"","`","\n","\r","\t","\0","--","/*","*/","$","$$","[","]","{","}","%","\\'","\\n","b"," ","é","\\a","x", "#", ";"]
random.seed(1)
cases=set(atoms)
for n in (2,3):
    for _ in range(400):
        cases.add("".join(random.choice(atoms) for _ in range(n)))
fails=collections.defaultdict(list)
for d in ds:
    D=Dialect.get_or_raise(d)
    for v in cases:
        if not v: continue
        try:
            s=exp.Literal.string(v).sql(dialect=d)
            toks=D.tokenize(s)
            ok = len(toks)==1 and toks[0].token_type==TokenType.STRING and toks[0].text==v
        except Exception as e:
            ok=False; toks=repr(e)
        if not ok:
            fails[d].append((v,s,[ (t.token_type.name,t.text) for t in toks] if isinstance(toks,list) else toks))
for d in ds:
    print(d or 'base', len(fails[d]), fails[d][:3])

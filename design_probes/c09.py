import sqlglot, collections, logging, sys
from sqlglot import exp
from sqlglot.errors import ErrorLevel
from sqlglot.dialects import DIALECTS
logging.disable(logging.CRITICAL)
ds=[""]+[d.lower() for d in DIALECTS]
seeds=[l.strip() for l in open('/repo/tests/fixtures/identity.sql') if l.strip() and not l.startswith('--')]
def fp(t):
    out=[]
    for n in t.walk(bfs=False):
        out.append((id(n),type(n).__name__, id(n.parent), n.arg_key, n.index, tuple((k, v if not isinstance(v,(exp.Expr,list)) else None) for k,v in n.args.items()), tuple(n.comments or ()), repr(n._type), repr(n._meta) ))
    return out
cnt=collections.Counter(); ex={}
for s in seeds:
    try: t=sqlglot.parse_one(s)
    except Exception: continue
    before=fp(t); 
    for d in ds:
        try: t.sql(dialect=d, unsupported_level=ErrorLevel.IGNORE)
        except Exception as e: pass
        after=fp(t)
        if after!=before:
            cnt[d]+=1; ex.setdefault(d,s)
            t=sqlglot.parse_one(s); before=fp(t)
for k,v in cnt.most_common(): print(v,k,ex[k])
print('done')

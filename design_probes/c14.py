import sys, logging, collections, json
exec(open('c05.py').read().split("bugs=collections.Counter()")[0])
logging.disable(logging.NOTSET)
class H(logging.Handler):
    def __init__(s): super().__init__(); s.recs=[]
    def emit(s,r): s.recs.append((r.levelname,r.getMessage()))
h=H(); lg=logging.getLogger('sqlglot'); lg.addHandler(h); lg.setLevel(logging.DEBUG); lg.propagate=False
from sqlglot.errors import ParseError, TokenError
cnt=collections.Counter(); ex={}
def run(s,d,lvl):
    h.recs=[]
    try: r=('ok',sqlglot.parse(s, read=d, error_level=lvl))
    except ParseError as e: r=('ParseError',e)
    except TokenError as e: r=('TokenError',e)
    except Exception as e: r=('internal',e)
    return r,[m for l,m in h.recs if l=='ERROR']
for n in range(N):
    s=mutate(random.choice(seeds)) if random.random()<0.7 else random.choice(seeds); d=random.choice(ds)
    if random.random()<0.2: s=s+' ; '+mutate(random.choice(seeds))
    R={l:run(s,d,l) for l in ErrorLevel}
    (ki,vi),_=R[ErrorLevel.IGNORE]; (kw,vw),logw=R[ErrorLevel.WARN]; (kr,vr),_=R[ErrorLevel.RAISE]; (km,vm),_=R[ErrorLevel.IMMEDIATE]
    if 'TokenError' in (ki,kw,kr,km):
        if not ki==kw==kr==km=='TokenError': cnt['token-inconsistent']+=1
        continue
    if 'internal' in (ki,kw,kr,km): cnt['skip-internal(C05)']+=1; continue
    if ki!='ok' or kw!='ok': cnt['V:ignore/warn raised']+=1; ex.setdefault('iw-raise',(s,d,ki,kw)); continue
    if vi!=vw: cnt['V:ignore!=warn trees']+=1; ex.setdefault('trees',(s,d)); 
    if (kr=='ParseError')!=(len(logw)>0): cnt['V:raise-vs-warnlog']+=1; ex.setdefault('raise-vs-warn',(s,d,kr,len(logw)))
    if (km=='ParseError')!=(kr=='ParseError'): cnt['V:immediate-vs-raise']+=1; ex.setdefault('imm-vs-raise',(s,d,km,kr))
    if kr=='ParseError' and km=='ParseError':
        a=vr.errors[0]; b=vm.errors[0]
        if (a['description'],a['line'],a['col'])!=(b['description'],b['line'],b['col']): cnt['V:first-error-differs']+=1; ex.setdefault('first-error',(s,d,a['description'],b['description']))
        else: cnt['ok-err']+=1
    elif kr=='ok': cnt['ok-valid']+=1
print(cnt)
for k,v in ex.items(): print(k,repr(v)[:400])

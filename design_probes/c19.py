import sys, threading, random, json, logging
sys.setswitchinterval(1e-6)
logging.disable(logging.CRITICAL)
seed=int(sys.argv[1]); nthreads=int(sys.argv[2])
DIALECTS=["athena","bigquery","clickhouse","databricks","doris","dremio","drill","druid","duckdb","dune","exasol","fabric","hive","materialize","mysql","oracle","postgres","presto","prql","redshift","risingwave","singlestore","snowflake","solr","spark","spark2","sqlite","starrocks","tableau","teradata","trino","tsql"]
sqls=["SELECT a, b + 1 AS c FROM t WHERE x IN (1, 2) ORDER BY a NULLS FIRST LIMIT 3","SELECT CAST(a AS TEXT) || 'x', COUNT(*) FROM t GROUP BY 1","WITH c AS (SELECT 1 AS x) SELECT JSON_EXTRACT(j, '$.a'), DATE_ADD(d, INTERVAL 1 DAY) FROM c"]
errors=[]; results={}
barrier=threading.Barrier(nthreads)
def work(tid):
    rnd=random.Random(seed*100+tid)
    ds=DIALECTS[:]; rnd.shuffle(ds)
    barrier.wait()
    import sqlglot
    for d in ds:
        for s in sqls:
            try:
                r=sqlglot.transpile(s, read=rnd.choice(ds) if False else None, write=d)[0]
            except Exception as e:
                r='EXC:'+type(e).__name__+':'+str(e)[:100]
            results.setdefault((d,s),set()).add(r)
    try:
        from sqlglot.optimizer import optimize
        results.setdefault('opt',set()).add(optimize("SELECT a FROM (SELECT a FROM t) WHERE a > 1", schema={'t':{'a':'int'}}).sql())
    except Exception as e: results.setdefault('opt',set()).add('EXC:'+repr(e)[:100])
ts=[threading.Thread(target=work,args=(i,)) for i in range(nthreads)]
[t.start() for t in ts]; [t.join() for t in ts]
bad={str(k):sorted(v) for k,v in results.items() if len(v)>1 or any(x.startswith('EXC') for x in v)}
print(json.dumps({'bad':bad}))

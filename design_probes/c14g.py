import sqlglot, collections, logging, random
from sqlglot.errors import ErrorLevel, UnsupportedError, SqlglotError
from sqlglot.dialects import DIALECTS
class H(logging.Handler):
    def __init__(s): super().__init__(); s.recs=[]
    def emit(s,r): s.recs.append((r.levelname,r.getMessage()))
h=H(); lg=logging.getLogger('sqlglot'); lg.addHandler(h); lg.setLevel(logging.DEBUG); lg.propagate=False
ds=[d.lower() for d in DIALECTS]
seeds=[l.strip() for l in open('/repo/tests/fixtures/identity.sql') if l.strip() and not l.startswith('--')]
random.seed(2); cnt=collections.Counter(); ex={}
for s in seeds:
    try: t=sqlglot.parse_one(s)
    except Exception: continue
    for d in random.sample(ds,5):
        R={}
        for lvl in ErrorLevel:
            h.recs=[]
            try: R[lvl]=('ok',t.sql(dialect=d, unsupported_level=lvl))
            except UnsupportedError as e: R[lvl]=('unsupported',str(e))
            except Exception as e: R[lvl]=('internal',type(e).__name__)
            if lvl==ErrorLevel.WARN: warnlog=[m for l,m in h.recs if l=='WARNING']
        if any(v[0]=='internal' for v in R.values()): cnt['skip-internal']+=1; continue
        i,w,r,m=(R[l] for l in (ErrorLevel.IGNORE,ErrorLevel.WARN,ErrorLevel.RAISE,ErrorLevel.IMMEDIATE))
        if i[0]!='ok' or w[0]!='ok': cnt['V:ignore/warn raised']+=1; ex.setdefault('iw',(s,d,i,w)); continue
        if i[1]!=w[1]: cnt['V:ignore!=warn text']+=1; ex.setdefault('iwtext',(s,d,i[1],w[1]))
        if r[0]=='ok' and r[1]!=w[1]: cnt['V:raise text differs']+=1
        if (r[0]=='unsupported')!=(len(warnlog)>0): cnt['V:raise-vs-warnlog']+=1; ex.setdefault('rw',(s,d,r[0],warnlog[:2]))
        if (m[0]=='unsupported')!=(len(warnlog)>0): cnt['V:immediate-vs-warnlog']+=1; ex.setdefault('mw',(s,d,m[0],warnlog[:2]))
        cnt['ok' if not warnlog else 'ok-unsupported']+=1
print(cnt)
for k,v in ex.items(): print(k,repr(v)[:500])

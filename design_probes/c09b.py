import sqlglot, collections, logging, sys, random
sys.path.insert(0,'/repo')
from sqlglot import exp, diff
from sqlglot.optimizer import optimize
from sqlglot.optimizer.qualify import qualify
from sqlglot.optimizer.annotate_types import annotate_types
from sqlglot.optimizer.normalize_identifiers import normalize_identifiers
from sqlglot.lineage import lineage
from tests.helpers import load_sql_fixture_pairs
logging.disable(logging.CRITICAL)
schema={"x":{"a":"INT","b":"INT"},"y":{"b":"INT","c":"INT"},"z":{"b":"INT","c":"INT"}}
def fp(t):
    out=[]
    for n in t.walk(bfs=False):
        out.append((id(n),type(n).__name__, id(n.parent), n.arg_key, n.index, tuple((k, repr(v) if not isinstance(v,(exp.Expr,list)) else len(v) if isinstance(v,list) else None) for k,v in n.args.items()), tuple(n.comments or ()), n.type.sql() if n.type is not None and n.type is not n else None, repr(sorted((n._meta or {}).items(), key=str))))
    return out
cnt=collections.Counter(); ex={}
cases=[(m.get('dialect'),s) for f in ['optimizer','qualify_columns','merge_subqueries'] for m,s,e in load_sql_fixture_pairs(f"optimizer/{f}.sql")]
random.seed(0)
for d,sql in cases:
    try: t=sqlglot.parse_one(sql, read=d)
    except Exception: continue
    if not isinstance(t, exp.Query): continue
    before=fp(t); txt=t.sql(d)
    apis={
     'optimize': lambda: optimize(t, schema=schema, dialect=d),
     'qualify-copy': lambda: qualify(t.copy(), schema=schema, dialect=d),
     'annotate-copy': lambda: annotate_types(t.copy(), schema=schema, dialect=d),
     'diff-self-copy': lambda: diff(t, t.copy()),
     'diff-other': lambda: diff(t, sqlglot.parse_one("SELECT a FROM x")),
     'lineage': lambda: lineage(t.selects[0].alias_or_name, t, schema=schema, dialect=d) if t.selects and t.selects[0].alias_or_name else None,
     'transform': lambda: t.transform(lambda n: exp.column('q') if isinstance(n,exp.Literal) else n),
     'where': lambda: t.where("1 = 1") if isinstance(t,exp.Select) else None,
     'select': lambda: t.select("zz") if isinstance(t,exp.Select) else None,
     'limit': lambda: t.limit(5),
     'order_by': lambda: t.order_by("1"),
     'subquery': lambda: t.subquery("sq"),
     'union': lambda: t.union("SELECT 1"),
     'with': lambda: t.with_("cc", as_="SELECT 1"),
     'replace_tables': lambda: exp.replace_tables(t, {"x":"xx"}),
     'expand': lambda: exp.expand(t, {"x": sqlglot.parse_one("SELECT 1 AS a, 2 AS b")}),
     'replace_placeholders': lambda: exp.replace_placeholders(t, 1, 2),
     'normalize_identifiers-str': lambda: normalize_identifiers(t.copy(), dialect=d),
    }
    names=list(apis); random.shuffle(names)
    for name in names:
        try: apis[name]()
        except Exception as e: cnt['api-exc:'+name]+=1
        after=fp(t)
        if after!=before or t.sql(d)!=txt:
            cnt['MUTATED:'+name]+=1; ex.setdefault(name,(sql,d,[(a,b) for a,b in zip(before,after) if a!=b][:1]))
            t=sqlglot.parse_one(sql, read=d); before=fp(t); txt=t.sql(d)
        else: cnt['ok']+=1
print(cnt)
for k,v in ex.items(): print(k,repr(v)[:500])

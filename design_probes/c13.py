import sqlglot, random, collections, logging, sys, re
from sqlglot.dialects import DIALECTS
from sqlglot.errors import TokenError
from sqlglot.tokens import TokenType
logging.disable(logging.CRITICAL)
ds=[""]+[d.lower() for d in DIALECTS]
seeds=[l.strip() for l in open('/repo/tests/fixtures/identity.sql') if l.strip() and not l.startswith('--')]
random.seed(1)
def linecol(sql, pos):
    # line/col of char at pos; line breaks: \n, or \r not followed by \n
    line=1; last=-1
    i=0
    while i<pos:
        c=sql[i]
        if c=='\n' or (c=='\r' and not (i+1<len(sql) and sql[i+1]=='\n')):
            line+=1; last=i
        i+=1
    return line, pos-last
WS=["\n","\r\n","\t","  ","\r"," /* c */ "," -- x\n","\n\n"]
cnt=collections.Counter(); ex={}
for n in range(6000):
    s=random.choice(seeds); d=random.choice(ds)
    parts=s.split(' ')
    s=''.join(p+(random.choice(WS) if random.random()<0.4 else ' ') for p in parts)
    if random.random()<0.3: s=s.replace("'a'","'a\nb'").replace("'x'","'é\r\nz'")
    try: toks=sqlglot.tokenize(s, read=d)
    except TokenError: continue
    except Exception as e: cnt['internal']+=1; continue
    prev_end=-1
    for t in toks:
        if t.token_type==TokenType.HIVE_TOKEN_STREAM: continue
        pr=None
        if not (0<=t.start<=t.end<len(s)): pr='bounds'
        elif t.start<=prev_end: pr='overlap/order'
        else:
            l,c=linecol(s,t.end)
            if (t.line,t.col)!=(l,c): pr=f'linecol:{t.token_type.name}'
        if pr:
            cnt[(pr,)]+=1; ex.setdefault(pr,(s,d,(t.token_type.name,t.text,t.line,t.col,t.start,t.end), linecol(s,t.end) if pr.startswith('line') else None)); break
        prev_end=t.end
print(cnt)
for k,v in ex.items(): print(k,repr(v)[:400])

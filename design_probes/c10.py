import sqlglot, collections, logging, sys
sys.path.insert(0,'/repo')
from sqlglot import exp
from sqlglot.errors import OptimizeError, SqlglotError
from sqlglot.optimizer.qualify import qualify
from sqlglot.optimizer.scope import traverse_scope
from tests.helpers import load_sql_fixture_pairs
logging.disable(logging.CRITICAL)
schema={"x":{"a":"INT","b":"INT"},"y":{"b":"INT","c":"INT"},"z":{"b":"INT","c":"INT"},"w":{"d":"TEXT","e":"TEXT"},"temporal":{"d":"DATE","t":"TIMESTAMP"}}
cnt=collections.Counter(); ex={}
for f in ['qualify_columns','optimizer','merge_subqueries','pushdown_predicates','qualify_tables']:
    for meta, sql, expected in load_sql_fixture_pairs(f"optimizer/{f}.sql"):
        d=meta.get('dialect')
        try: e=sqlglot.parse_one(sql, read=d)
        except Exception: continue
        try: q1=qualify(e.copy(), schema=schema, dialect=d)
        except SqlglotError: cnt['opt-error']+=1; continue
        except Exception as x: cnt['internal:'+type(x).__name__]+=1; ex.setdefault('internal',(sql,d,repr(x)[:100])); continue
        s1=q1.sql(d)
        try:
            q2=qualify(q1.copy(), schema=schema, dialect=d); s2=q2.sql(d)
        except Exception as x: cnt['requalify-exc:'+type(x).__name__]+=1; ex.setdefault('requalify-exc',(sql,d,s1,repr(x)[:150])); continue
        if s1!=s2: cnt['non-idempotent']+=1; ex.setdefault('non-idempotent',[]).append((sql,s1,s2))
        else: cnt['idem-ok']+=1
        # reparse-then-qualify idempotence too
        try:
            q3=qualify(sqlglot.parse_one(s1,read=d), schema=schema, dialect=d); s3=q3.sql(d)
            if s3!=s1: cnt['reparse-non-idem']+=1; ex.setdefault('reparse-non-idem',[]).append((sql,s1,s3))
        except Exception as x: cnt['reparse-exc']+=1; ex.setdefault('reparse-exc',(sql,d,s1,repr(x)[:150]))
        # output names
        if isinstance(e, exp.Query) and isinstance(q1, exp.Query):
            n0=[s.alias_or_name.lower() for s in e.selects if not s.is_star and s.alias_or_name]
            # skip star
            if not any(s.is_star for s in e.selects) and all(s.alias_or_name for s in e.selects):
                n1=[s.alias_or_name.lower() for s in q1.selects]
                if n0!=n1: cnt['names-changed']+=1; ex.setdefault('names-changed',[]).append((sql,n0,n1))
        for t in q1.find_all(exp.Table):
            if not t.alias and isinstance(t.parent,(exp.From,exp.Join)): cnt['table-no-alias']+=1; ex.setdefault('table-no-alias',(sql,s1))
print(cnt)
for k,v in ex.items():
    if isinstance(v,list):
        for m in v[:6]: print(k,m)
    else: print(k,v)

import sys, json, traceback, logging, re, collections
import sqlglot
from sqlglot.errors import SqlglotError, ErrorLevel
logging.disable(logging.CRITICAL)
shard=int(sys.argv[1]); nshards=int(sys.argv[2]); dialects=sys.argv[3].split(',')
class Budget(BaseException): pass
M=sys.monitoring; TOOL=next(i for i in range(6) if M.get_tool(i) is None); M.use_tool_id(TOOL,"vf")
st={'n':0,'limit':None}
def on_start(code, off):
    if not code.co_filename.startswith('/repo/sqlglot'): return M.DISABLE
    st['n']+=1
    if st['limit'] is not None and st['n']>st['limit']:
        st['limit']=None; raise Budget()
M.register_callback(TOOL, M.events.PY_START, on_start)
seeds=[l.strip() for l in open('/repo/tests/fixtures/identity.sql') if l.strip() and not l.startswith('--')]
TOK=re.compile(r"'(?:[^']|'')*'|\"[^\"]*\"|[A-Za-z_][A-Za-z_0-9]*|\d+(?:\.\d+)?|::|<=|>=|<>|!=|\|\||->>|->|=>|\S")
def edits(s):
    toks=TOK.findall(s); n=len(toks)
    for i in range(n):
        yield ' '.join(toks[:i]+toks[i+1:])            # delete
        yield ' '.join(toks[:i]+[toks[i]]+toks[i:])    # duplicate
        if i+1<n: yield ' '.join(toks[:i]+[toks[i+1],toks[i]]+toks[i+2:])  # swap
        if i>0: yield ' '.join(toks[:i])               # prefix
    for kw in ("NOT",",","(",")","AS","SELECT",".","::","[","{"):
        for i in range(0,n+1,max(1,n//6)):
            yield ' '.join(toks[:i]+[kw]+toks[i:])
def sig(e):
    tb=traceback.extract_tb(e.__traceback__); fr=[f for f in tb if '/repo/sqlglot' in f.filename]
    return [(f.filename.split('/')[-1],f.name) for f in fr[-2:]]
out=open(f'c05e_{shard}.jsonl','w'); total=0; seen=set()
for idx,s in enumerate(seeds):
    if idx%nshards!=shard: continue
    for m in edits(s):
        for d in dialects:
            key=(m,d)
            if key in seen: continue
            seen.add(key); total+=1
            try: ntok=len(sqlglot.tokenize(m, read=d))
            except Exception: continue
            st['n']=0; st['limit']=20000+4000*ntok+100*ntok*ntok
            rec=None; trees=[]
            M.set_events(TOOL, M.events.PY_START)
            try:
                try: trees=sqlglot.parse(m, read=d, error_level=ErrorLevel.IMMEDIATE)
                except SqlglotError: pass
                except Budget: rec=dict(kind='hang-parse')
                except RecursionError as e: rec=dict(kind='recursion-parse',sig=sig(e)[-1:])
                except Exception as e: rec=dict(kind='leak-parse',exc=type(e).__name__,sig=sig(e))
                if rec is None:
                    for t in trees:
                        if t is None: continue
                        st['n']=0; st['limit']=200000
                        try: t.sql(dialect=d, unsupported_level=ErrorLevel.IGNORE)
                        except SqlglotError: pass
                        except Budget: rec=dict(kind='hang-gen'); break
                        except RecursionError as e: rec=dict(kind='recursion-gen'); break
                        except Exception as e: rec=dict(kind='leak-gen',exc=type(e).__name__,sig=sig(e)); break
            finally:
                M.set_events(TOOL, 0)
            if rec: rec.update(sql=m,dialect=d); out.write(json.dumps(rec)+'\n'); out.flush()
out.write(json.dumps(dict(kind='TOTAL',n=total))+'\n')

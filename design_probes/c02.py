import sqlglot, random, duckdb, sqlite3, sys, collections, logging, datetime, decimal
from sqlglot.errors import SqlglotError, ErrorLevel
logging.disable(logging.CRITICAL)
random.seed(int(sys.argv[1]) if len(sys.argv)>1 else 0)
N=int(sys.argv[2]) if len(sys.argv)>2 else 300
schema={'t':{'a':'INTEGER','b':'INTEGER','s':'TEXT'},'u':{'a':'INTEGER','c':'INTEGER'}}
def mkdata():
    vals=[None,0,1,2,3,-2]
    return {'t':[(random.choice(vals),random.choice(vals),random.choice([None,'x','y','Xy',''])) for _ in range(random.randint(0,5))],
       'u':[(random.choice(vals),random.choice(vals)) for _ in range(random.randint(0,4))]}
def ie(cols,d=2):
    r=random.random()
    if d==0 or r<0.45: return random.choice(cols)
    if r<0.6: return str(random.choice([0,1,2,7]))
    if r<0.8: return f"{ie(cols,d-1)} {random.choice(['+','-','*','/','%'])} {ie(cols,d-1)}"
    if r<0.85: return f"({ie(cols,d-1)})"
    if r<0.9: return f"COALESCE({ie(cols,d-1)}, {ie(cols,d-1)})"
    if r<0.94: return f"NULLIF({ie(cols,d-1)}, {ie(cols,d-1)})"
    if r<0.97: return f"ABS({ie(cols,d-1)})"
    return f"CASE WHEN {be(cols,0)} THEN {ie(cols,d-1)} ELSE {ie(cols,d-1)} END"
def se(d=1):
    r=random.random()
    if d==0 or r<0.5: return random.choice(["t.s","'q'","'x'"])
    if r<0.7: return f"{se(d-1)} || {se(d-1)}"
    if r<0.8: return f"UPPER({se(d-1)})"
    if r<0.9: return f"LOWER({se(d-1)})"
    return f"COALESCE({se(d-1)}, {se(d-1)})"
def be(cols,d=2):
    r=random.random()
    if d==0 or r<0.4: return f"{ie(cols,1)} {random.choice(['=','<>','<','<=','>','>=','!='])} {ie(cols,1)}"
    if r<0.55: return f"{be(cols,d-1)} AND {be(cols,d-1)}"
    if r<0.7: return f"{be(cols,d-1)} OR {be(cols,d-1)}"
    if r<0.75: return f"({be(cols,d-1)})"
    if r<0.82: return f"NOT {be(cols,d-1)}"
    if r<0.9: return f"{ie(cols,1)} IS {random.choice(['','NOT '])}NULL"
    if r<0.95: return f"{ie(cols,1)} {random.choice(['','NOT '])}IN ({ie(cols,0)}, {ie(cols,0)})"
    return f"{ie(cols,1)} BETWEEN {ie(cols,0)} AND {ie(cols,0)}"
def q():
    r=random.random(); tc=['t.a','t.b']; uc=['u.a','u.c']
    if r<0.3: return f"SELECT {ie(tc)} AS x, {se()} AS s FROM t WHERE {be(tc)}"
    if r<0.5:
        jt=random.choice(['JOIN','LEFT JOIN','CROSS JOIN','INNER JOIN','LEFT OUTER JOIN'])
        on='' if jt=='CROSS JOIN' else f" ON {random.choice(['t.a = u.a', be(tc+uc,1)])}"
        return f"SELECT {ie(tc+uc)} AS x, t.b AS b, u.c AS c FROM t {jt} u{on}"
    if r<0.7:
        agg=random.choice(['SUM','COUNT','MIN','MAX','AVG','TOTAL' if False else 'SUM'])
        return f"SELECT t.a AS a, {agg}({ie(tc)}) AS x, COUNT(*) AS n, COUNT(DISTINCT t.b) AS m FROM t GROUP BY t.a HAVING {be(['t.a','COUNT(*)'],1)}"
    if r<0.8: return f"SELECT t.a AS a FROM t {random.choice(['UNION','UNION ALL','INTERSECT','EXCEPT'])} SELECT u.a AS a FROM u"
    if r<0.9:
        o=random.choice(['',' ASC',' DESC'])+random.choice(['',' NULLS FIRST',' NULLS LAST'])
        return f"SELECT t.a AS a, t.b AS b, t.s AS s FROM t ORDER BY t.a{o}, t.b{random.choice(['',' DESC'])}, t.s LIMIT {random.randint(0,4)}{random.choice(['',' OFFSET 1'])}"
    return f"SELECT DISTINCT t.a AS a, (SELECT MAX(u.c) FROM u WHERE u.a = t.a) AS m FROM t WHERE t.a IN (SELECT u.a FROM u)"
def nv(v):
    if isinstance(v,bool): return int(v)
    if isinstance(v,(float,decimal.Decimal)):
        f=float(v); return int(f) if f==int(f) else round(f,6)
    return v
def norm(rows, ordered): 
    out=[tuple(nv(v) for v in r) for r in rows]
    return out if ordered else sorted(out, key=repr)
def run(engine,sql,data):
    con=duckdb.connect() if engine=='duckdb' else sqlite3.connect(':memory:')
    for t,cols in schema.items():
        con.execute(f"create table {t} ({', '.join(f'{c} {ty}' for c,ty in cols.items())})")
        if data[t]: con.executemany(f"insert into {t} values ({','.join('?'*len(cols))})", data[t])
    return con.execute(sql).fetchall()
cnt=collections.Counter(); ex=collections.defaultdict(list)
for i in range(N):
    data=mkdata(); sql=q(); ordered=' ORDER BY ' in sql
    for src,dst in (('sqlite','duckdb'),('duckdb','sqlite'),('sqlite','sqlite'),('duckdb','duckdb')):
        try: r0=norm(run(src,sql,data),ordered)
        except Exception as e: cnt[(src,dst,'src-engine-err')]+=1; continue
        try: out=sqlglot.transpile(sql, read=src, write=dst, unsupported_level=ErrorLevel.RAISE)[0]
        except SqlglotError as e: cnt[(src,dst,'unsupported')]+=1; continue
        except Exception as e: cnt[(src,dst,'internal')]+=1; ex[(src,dst,'internal')].append((sql,repr(e)[:100])); continue
        try: r1=norm(run(dst,out,data),ordered)
        except Exception as e: cnt[(src,dst,'dst-engine-err')]+=1; ex[(src,dst,'dst-engine-err')].append((sql,out,str(e)[:120])); continue
        if r0!=r1: cnt[(src,dst,'MISMATCH')]+=1; ex[(src,dst,'MISMATCH')].append((sql,out,data,r0,r1))
        else: cnt[(src,dst,'ok')]+=1
for k,v in sorted(cnt.items()): print(k,v)
for k,v in ex.items():
    for m in v[:6]: print(k, repr(m)[:700]); print()

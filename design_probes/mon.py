import sys, time, sqlglot, logging
from sqlglot.errors import ErrorLevel
logging.disable(logging.CRITICAL)
class Budget(BaseException): pass
M=sys.monitoring; TOOL=M.PROFILER_ID
M.use_tool_id(TOOL,"vf")
state={'n':0,'limit':None}
def on_start(code, off):
    if not code.co_filename.startswith('/repo/sqlglot'):
        return M.DISABLE
    state['n']+=1
    if state['limit'] is not None and state['n']>state['limit']:
        state['limit']=None
        raise Budget()
M.register_callback(TOOL, M.events.PY_START, on_start)
def run(sql,d,lvl,limit):
    state['n']=0; state['limit']=limit
    M.set_events(TOOL, M.events.PY_START)
    try:
        try:
            sqlglot.parse(sql, read=d, error_level=lvl); r='ok'
        except Budget: r='BUDGET'
        except Exception as e: r=type(e).__name__
    finally:
        M.set_events(TOOL, 0)
    return r,state['n']
seeds=[l.strip() for l in open('/repo/tests/fixtures/identity.sql') if l.strip() and not l.startswith('--')]
# overhead
t=time.time()
for s in seeds: 
    try: sqlglot.parse(s)
    except Exception: pass
t0=time.time()-t
t=time.time(); mx=0; worst=None
for s in seeds:
    r,n=run(s,None,ErrorLevel.IMMEDIATE,None)
    toks=len(sqlglot.tokenize(s)); ratio=n/max(toks,1)
    if ratio>mx: mx=ratio; worst=(s,n,toks)
t1=time.time()-t
print('plain %.2fs monitored %.2fs'%(t0,t1),'max calls/token %.1f'%mx, worst)
for s,d in [("COMMENT ON PROCEDURE my_proc(integer, NOT 'Runs a report'","bigquery"),("CREATE TABLE z (a INT, NOT KEY","starrocks"),("DESCRIBE .","snowflake")]:
    toks=len(sqlglot.tokenize(s,read=d))
    print(s, run(s,d,ErrorLevel.IMMEDIATE, 5000+2000*toks*toks))

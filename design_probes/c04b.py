import sqlglot, random, collections
from sqlglot import exp
from sqlglot.dialects.dialect import Dialect
from sqlglot.tokens import TokenType
from sqlglot.dialects import DIALECTS
ds = [""] + [d.lower() for d in DIALECTS]
atoms = ["a","'","''","\\","\\\\","\"","\"\"","`","``","\n","\r","\t","\0","--","/*","*/","$","$$","[","]","]]","{","}","%","\\'","\\n","b"," ","é","\\a","x", "#", ";", "\\\"", "\\`"]
random.seed(1)
cases=set(atoms)
for n in (2,3,4):
    for _ in range(500):
        cases.add("".join(random.choice(atoms) for _ in range(n)))
idf=collections.defaultdict(list); cmf=collections.defaultdict(list)
for d in ds:
    D=Dialect.get_or_raise(d)
    for v in cases:
        # identifier
        try:
            s=exp.to_identifier(v, quoted=True).sql(dialect=d)
            toks=D.tokenize(s)
            ok=len(toks)==1 and toks[0].token_type in (TokenType.IDENTIFIER,) and toks[0].text==v
        except Exception as e: ok=False; toks=repr(e)[:60]
        if not ok: idf[d].append((v,s,[(t.token_type.name,t.text) for t in toks][:3] if isinstance(toks,list) else toks))
        # comment
        try:
            base=exp.column("c").eq(1)
            e2=base.copy(); e2.this.add_comments([v]) 
            s0=base.sql(dialect=d); s1=e2.sql(dialect=d)
            t0=[(t.token_type,t.text) for t in D.tokenize(s0)]; t1=[(t.token_type,t.text) for t in D.tokenize(s1)]
            ok=t0==t1
        except Exception as e: ok=False; s1=repr(e)[:60]
        if not ok: cmf[d].append((v,s1))
for d in ds:
    if idf[d] or cmf[d]: print(d or 'base','ident-fail',len(idf[d]),idf[d][:2],'| comment-fail',len(cmf[d]),cmf[d][:2])

import sqlglot, random, duckdb, sqlite3, sys, collections, logging, itertools
from sqlglot.executor import execute
from sqlglot.errors import ExecuteError, SqlglotError
logging.disable(logging.CRITICAL)
random.seed(int(sys.argv[1]) if len(sys.argv)>1 else 0)
N=int(sys.argv[2]) if len(sys.argv)>2 else 300
def mkdata():
    vals=[None,0,1,2,3]
    t={'t':[{'a':random.choice(vals),'b':random.choice(vals),'s':random.choice([None,'x','y','z'])} for _ in range(random.randint(0,5))],
       'u':[{'a':random.choice(vals),'c':random.choice(vals)} for _ in range(random.randint(0,4))]}
    return t
schema={'t':{'a':'INT','b':'INT','s':'TEXT'},'u':{'a':'INT','c':'INT'}}
def ie(tabs):
    cols=[f"{t}.{c}" for t in tabs for c in schema[t] if schema[t][c]=='INT']
    r=random.random()
    if r<0.5: return random.choice(cols)
    if r<0.7: return str(random.choice([0,1,2]))
    if r<0.85: return f"({ie(tabs)} {random.choice('+-*')} {ie(tabs)})"
    return f"COALESCE({ie(tabs)}, {ie(tabs)})"
def be(tabs,d=2):
    r=random.random()
    if d==0 or r<0.4: return f"{ie(tabs)} {random.choice(['=','<>','<','<=','>','>='])} {ie(tabs)}"
    if r<0.55: return f"({be(tabs,d-1)} AND {be(tabs,d-1)})"
    if r<0.7: return f"({be(tabs,d-1)} OR {be(tabs,d-1)})"
    if r<0.8: return f"NOT {be(tabs,d-1)}"
    if r<0.9: return f"{ie(tabs)} IS {random.choice(['','NOT '])}NULL"
    return f"{ie(tabs)} IN ({ie(tabs)}, {ie(tabs)})"
def q():
    r=random.random()
    if r<0.3:
        return f"SELECT {ie(['t'])} AS x, t.s AS s FROM t WHERE {be(['t'])}"
    if r<0.55:
        jt=random.choice(['JOIN','LEFT JOIN','RIGHT JOIN','FULL JOIN','CROSS JOIN'])
        on='' if jt=='CROSS JOIN' else f" ON {random.choice(['t.a = u.a', 't.a = u.a AND '+be(['t','u'],1), be(['t','u'],1)])}"
        return f"SELECT {ie(['t','u'])} AS x, t.b AS b, u.c AS c FROM t {jt} u{on}"
    if r<0.8:
        agg=random.choice(['SUM','COUNT','MIN','MAX','AVG'])
        hv=random.choice(['', f' HAVING {agg}(t.b) > 1'])
        return f"SELECT t.a AS a, {agg}({ie(['t'])}) AS x, COUNT(*) AS n FROM t GROUP BY t.a{hv}"
    if r<0.9:
        op=random.choice(['UNION','UNION ALL','INTERSECT','EXCEPT'])
        return f"SELECT t.a AS a FROM t {op} SELECT u.a AS a FROM u"
    return f"SELECT DISTINCT t.a AS a, t.b AS b FROM t ORDER BY a, b LIMIT {random.randint(0,3)}"
def norm(rows):
    out=[]
    for r in rows:
        out.append(tuple((int(v) if isinstance(v,bool) else (round(float(v),6) if isinstance(v,float) or type(v).__name__=='Decimal' else v)) for v in r))
    return sorted(out, key=repr)
cnt=collections.Counter(); ex={}
for i in range(N):
    data=mkdata(); sql=q()
    duck=duckdb.connect(); lite=sqlite3.connect(':memory:')
    for t,cols in schema.items():
        ddl=f"create table {t} ({', '.join(f'{c} {ty}' for c,ty in cols.items())})"
        duck.execute(ddl); lite.execute(ddl)
        for row in data[t]:
            ph=','.join('?'*len(cols)); vals=[row[c] for c in cols]
            duck.execute(f"insert into {t} values ({ph})", vals); lite.execute(f"insert into {t} values ({ph})", vals)
    try: rd=norm(duck.execute(sqlglot.transpile(sql,write='duckdb')[0]).fetchall())
    except Exception as e: cnt['duck-err']+=1; ex.setdefault('duck-err',(sql,str(e)[:100])); continue
    try: rl=norm(lite.execute(sqlglot.transpile(sql,write='sqlite')[0]).fetchall())
    except Exception as e: rl=None
    if rl is not None and rl!=rd: cnt['engines-disagree']+=1; ex.setdefault('engines-disagree',(sql,rd,rl)); 
    tables={t:(rows if rows else []) for t,rows in data.items()}
    try:
        res=execute(sql, schema=schema, tables=tables)
        rx=norm(res.rows)
    except ExecuteError as e: cnt['ExecuteError']+=1; ex.setdefault('ExecuteError',(sql,str(e)[:100])); continue
    except SqlglotError as e: cnt['SqlglotError:'+type(e).__name__]+=1; ex.setdefault('SqlglotError',(sql,str(e)[:100])); continue
    except Exception as e: cnt['internal:'+type(e).__name__]+=1; ex.setdefault('internal:'+type(e).__name__,(sql,data,str(e)[:100])); continue
    if rx!=rd:
        k='MISMATCH:'+sql.split(' FROM ')[0][:20]+('|'+sql.split()[ -3] if False else '')
        cnt['MISMATCH']+=1; ex.setdefault('MISMATCH',[]).append((sql,data,rd,rx))
    else: cnt['ok']+=1
print(cnt)
for k,v in ex.items():
    if k=='MISMATCH':
        for m in v[:8]: print('MISMATCH',m)
    else: print(k,v)

import sys, threading, random, json, logging, time, os
logging.disable(logging.CRITICAL)
seed=int(sys.argv[1]); nthreads=int(sys.argv[2]); inject=sys.argv[3]=='1'
sys.setswitchinterval(1e-6)
rnd=random.Random(seed)
events=[]; ev_lock=threading.Lock()
inflight={}; overlaps=[0]
def audit(name,args):
    if name=='import' and args and isinstance(args[0],str) and args[0].startswith('sqlglot.dialects.') :
        with ev_lock: events.append(('imp',threading.get_ident()%1000,args[0].split('.')[-1]))
sys.addaudithook(audit)
M=sys.monitoring; TOOL=next(i for i in range(6) if M.get_tool(i) is None); M.use_tool_id(TOOL,'vf')
FILES=('/repo/sqlglot/dialects/__init__.py','/repo/sqlglot/dialects/dialect.py','/repo/sqlglot/optimizer/__init__.py','/repo/sqlglot/generator.py')
inj=[0]
def on_line(code,line):
    fn=code.co_filename
    if fn not in FILES: return M.DISABLE
    if fn.endswith('generator.py') and code.co_name not in ('__init__','_build_dispatch'): return M.DISABLE
    if fn.endswith('dialect.py') and code.co_name not in ('__new__','_try_load','__getitem__','get','classes','get_or_raise'): return M.DISABLE
    if rnd.random()<0.2:
        inj[0]+=1; time.sleep(0 if rnd.random()<0.8 else 0.0002)
if inject:
    M.register_callback(TOOL, M.events.LINE, on_line); M.set_events(TOOL, M.events.LINE)
DIALECTS=["athena","bigquery","clickhouse","databricks","doris","dremio","drill","druid","duckdb","dune","exasol","fabric","hive","materialize","mysql","oracle","postgres","presto","prql","redshift","risingwave","singlestore","snowflake","solr","spark","spark2","sqlite","starrocks","tableau","teradata","trino","tsql"]
sqls=["SELECT a, b + 1 AS c FROM t WHERE x IN (1, 2) ORDER BY a NULLS FIRST LIMIT 3","SELECT CAST(a AS TEXT) || 'x', COUNT(*) FROM t GROUP BY 1"]
results={}; res_lock=threading.Lock(); first_use=[]
barrier=threading.Barrier(nthreads)
def work(tid):
    r=random.Random(seed*100+tid); ds=DIALECTS[:]; r.shuffle(ds)
    barrier.wait()
    import sqlglot
    for d in ds:
        with ev_lock:
            inflight[tid]=d
            if len(set(inflight.values()))>1 or sum(1 for v in inflight.values() if v==d)>1: overlaps[0]+=1
        for s in sqls:
            try: out=sqlglot.transpile(s, write=d)[0]
            except Exception as e: out='EXC:'+type(e).__name__+':'+str(e)[:80]
            with res_lock: results.setdefault(d+'|'+s,set()).add(out)
        with ev_lock: inflight.pop(tid,None); first_use.append((tid,d))
    try:
        from sqlglot.optimizer import optimize
        out=optimize("SELECT a FROM (SELECT a FROM t) WHERE a > 1", schema={'t':{'a':'int'}}).sql()
    except Exception as e: out='EXC:'+repr(e)[:80]
    with res_lock: results.setdefault('opt',set()).add(out)
t0=time.time()
ts=[threading.Thread(target=work,args=(i,)) for i in range(nthreads)]
[t.start() for t in ts]; [t.join(120) for t in ts]
alive=[t for t in ts if t.is_alive()]
if inject: M.set_events(TOOL,0)
from sqlglot.dialects.dialect import Dialect
imp_order=tuple(e[2] for e in events if e[0]=='imp')
bad={k:sorted(v) for k,v in results.items() if len(v)>1 or any(x.startswith('EXC') for x in v)}
import hashlib
print(json.dumps({'secs':round(time.time()-t0,2),'alive':len(alive),'bad':bad,'injected':inj[0],'import_events':len(imp_order),'order_sig':hashlib.md5(repr(imp_order).encode()).hexdigest()[:8],'distinct_imported':len(set(imp_order)),'overlap_windows':overlaps[0],'classes':len(Dialect.classes)}))

import sqlglot, collections, logging, random, sys
from sqlglot import exp
from sqlglot.errors import ErrorLevel, SqlglotError
from sqlglot.dialects import DIALECTS
logging.disable(logging.CRITICAL)
ds=[""]+[d.lower() for d in DIALECTS if d.lower() not in ('dax',)]
seeds=[l.strip() for l in open('/repo/tests/fixtures/identity.sql') if l.strip() and not l.startswith('--')]
seeds+= [s for s in open('/repo/tests/fixtures/pretty.sql').read().split(';\n') if s.strip()][:200]
random.seed(3)
cnt=collections.Counter(); ex=collections.defaultdict(list)
def strip(t):
    t=t.copy()
    for n in t.walk(): n.comments=None
    return t
for s in seeds:
    for d in random.sample(ds,6)+[""]:
        try: t=sqlglot.parse_one(s, read=d)
        except Exception: continue
        try: base=t.sql(dialect=d, unsupported_level=ErrorLevel.IGNORE); tb=sqlglot.parse_one(base, read=d)
        except Exception: cnt['base-fail']+=1; continue
        opts=dict(pretty=True, pad=random.randint(0,4), indent=random.randint(0,4), max_text_width=random.choice([1,20,80]), leading_comma=random.random()<0.5)
        try:
            p=t.sql(dialect=d, unsupported_level=ErrorLevel.IGNORE, **opts)
        except Exception as e: cnt['pretty-exc:'+type(e).__name__]+=1; ex['pretty-exc'].append((s,d,opts,repr(e)[:80])); continue
        if '__SQLGLOT__LB__' in p: cnt['sentinel']+=1
        try: tp=sqlglot.parse_one(p, read=d)
        except Exception as e: cnt['pretty-reparse-fail']+=1; ex['pretty-reparse-fail'].append((s,d,opts,p)); continue
        if strip(tp)!=strip(tb): cnt['pretty-tree-neq']+=1; ex['pretty-tree-neq'].append((s,d,opts,base,p))
        else: cnt['ok']+=1
        nc=t.sql(dialect=d, unsupported_level=ErrorLevel.IGNORE, comments=False)
        if '/*' in nc and '/*' not in strip(t).sql(dialect=d, unsupported_level=ErrorLevel.IGNORE): cnt['comment-leak']+=1; ex['comment-leak'].append((s,d,nc))
print(cnt)
for k,v in ex.items():
    for m in v[:5]: print(k, repr(m)[:500])

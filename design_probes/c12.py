import sqlglot, json, pickle, collections, logging
from sqlglot import exp
from sqlglot.errors import ErrorLevel
from sqlglot.optimizer.annotate_types import annotate_types
from sqlglot.optimizer.qualify import qualify
logging.disable(logging.CRITICAL)
seeds=[l.strip() for l in open('/repo/tests/fixtures/identity.sql') if l.strip() and not l.startswith('--')]
cnt=collections.Counter(); ex={}
def fpr(t):
    return [(type(n).__name__, n.arg_key, n.index, tuple(n.comments or ()), n._type.sql() if n._type is not None else None, repr(sorted((n._meta or {}).items(), key=str)), tuple((k, repr(v)) for k,v in sorted(n.args.items()) if not isinstance(v,(exp.Expr,list)) and v is not None)) for n in t.walk(bfs=False)]
def chk(t, tag, s, d):
    try:
        dumped=t.dump()
        js=json.dumps(dumped)
    except Exception as e:
        cnt[(tag,'json-fail',type(e).__name__)]+=1; ex.setdefault((tag,'json-fail'),(s,d,str(e)[:80])); return
    for name,mk in (('load',lambda: exp.Expr.load(dumped)),('json',lambda: exp.Expr.load(json.loads(js))),('pickle',lambda: pickle.loads(pickle.dumps(t))),('copy',lambda: t.copy())):
        try: t2=mk()
        except Exception as e:
            cnt[(tag,name,'exc',type(e).__name__)]+=1; ex.setdefault((tag,name,'exc'),(s,d,str(e)[:80])); continue
        if t2!=t: cnt[(tag,name,'neq')]+=1; ex.setdefault((tag,name,'neq'),(s,d))
        elif fpr(t2)!=fpr(t):
            cnt[(tag,name,'fp')]+=1
            a,b=fpr(t),fpr(t2)
            diff=[(x,y) for x,y in zip(a,b) if x!=y][:1]
            ex.setdefault((tag,name,'fp'),(s,d,diff))
for s in seeds:
    for d in ["","bigquery","duckdb","snowflake","tsql","mysql","clickhouse"]:
        try: t=sqlglot.parse_one(s, read=d)
        except Exception: continue
        chk(t,'parsed',s,d)
        try:
            t2=annotate_types(t.copy(), dialect=d)
        except Exception: continue
        chk(t2,'annotated',s,d)
for k,v in cnt.most_common(): print(v,k,ex.get(k[:3]) or ex.get(k[:2]))

import random, sys, collections, logging, copy, itertools
from sqlglot.schema import MappingSchema
from sqlglot.errors import SchemaError, SqlglotError
logging.disable(logging.CRITICAL)
random.seed(int(sys.argv[1])); N=int(sys.argv[2]); FIX=len(sys.argv)>3
DBS=['d1','d2']; TABS=['t','u']; COLS=['a','b','c']; TYPES=['INT','TEXT']
def ans(f):
    try: return ('ok',f())
    except SchemaError as e: return ('SchemaError',)
    except SqlglotError as e: return ('SqlglotError:'+type(e).__name__,)
    except Exception as e: return ('internal:'+type(e).__name__,str(e)[:60])
def lookups(depth):
    names=[t for t in TABS]+([f"{d}.{t}" for d in DBS for t in TABS] if depth>=2 else [])
    for n in names:
        yield ('column_names',n)
        for c in COLS[:2]:
            yield ('has_column',n,c); yield ('type',n,c)
def do(s,l):
    if l[0]=='column_names': return ans(lambda: list(s.column_names(l[1])))
    if l[0]=='has_column': return ans(lambda: s.has_column(l[1],l[2]))
    if l[0]=='type': return ans(lambda: s.get_column_type(l[1],l[2]).sql())
def set_nested(m,parts,cols):
    d=m
    for p in parts[:-1]: d=d.setdefault(p,{})
    d[parts[-1]]=cols
cnt=collections.Counter(); ex={}
for i in range(N):
    depth=random.choice([1,2]); dialect=random.choice([None,'snowflake','bigquery','duckdb']); norm=random.choice([True,True,False])
    model={}
    def rand_table():
        return [random.choice(TABS)] if depth==1 else [random.choice(DBS),random.choice(TABS)]
    # initial
    for _ in range(random.randint(0,2)):
        parts=rand_table(); set_nested(model,parts,{c:random.choice(TYPES) for c in random.sample(COLS,random.randint(1,3))})
    try: live=MappingSchema(copy.deepcopy(model) if model else None, dialect=dialect, normalize=norm)
    except Exception as e: cnt['init-exc']+=1; continue
    hist=[]
    for step in range(random.randint(1,8)):
        if random.random()<0.5:
            l=random.choice(list(lookups(depth))); do(live,l); hist.append(l)   # populate caches
        else:
            parts=rand_table(); cols={c:random.choice(TYPES) for c in random.sample(COLS,random.randint(1,3))}
            r=ans(lambda: live.add_table('.'.join(parts), cols))
            hist.append(('add','.'.join(parts),cols,r[0]))
            if r[0]=='ok': set_nested(model,parts,cols)
            if FIX: live._find_cache.clear()
        try: fresh=MappingSchema(copy.deepcopy(model) if model else None, dialect=dialect, normalize=norm)
        except Exception as e: cnt['fresh-exc:'+type(e).__name__]+=1; break
        bad=None
        for l in lookups(depth):
            a,b=do(live,l),do(fresh,l)
            if a!=b: bad=(l,a,b); break
        if bad:
            k=(bad[0][0], bad[1][0], bad[2][0]); cnt[k]+=1; ex.setdefault(k,(depth,dialect,norm,hist[:],bad)); break
    cnt['hist']+=1
print(cnt)
for k,v in ex.items(): print(k,repr(v)[:600])

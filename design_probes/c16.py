import sqlglot, random, duckdb, sys, collections, logging
from sqlglot import exp
from sqlglot.optimizer.annotate_types import annotate_types
from sqlglot.optimizer.qualify import qualify
logging.disable(logging.CRITICAL)
random.seed(int(sys.argv[1]) if len(sys.argv)>1 else 0)
cols={'bo':'BOOLEAN','ti':'TINYINT','si':'SMALLINT','i':'INT','bi':'BIGINT','d':'DOUBLE','de':'DECIMAL(10,2)','s':'VARCHAR','dt':'DATE','ts':'TIMESTAMP'}
con=duckdb.connect(); con.execute("create table t ("+", ".join(f"{c} {t}" for c,t in cols.items())+")")
con.execute("insert into t values (true,1,2,3,4,1.5,2.25,'x',DATE '2020-01-02',TIMESTAMP '2020-01-02 03:04:05')")
schema={'t':cols}
num=['ti','si','i','bi','d','de']
def ne(d=2):
    r=random.random()
    if d==0 or r<0.4: return random.choice(num+['1','2.5'])
    if r<0.7: return f"({ne(d-1)} {random.choice(['+','-','*','/'])} {ne(d-1)})"
    if r<0.8: return f"COALESCE({ne(d-1)}, {ne(d-1)})"
    if r<0.9: return f"CASE WHEN bo THEN {ne(d-1)} ELSE {ne(d-1)} END"
    return random.choice([f"ABS({ne(d-1)})", f"CAST({ne(d-1)} AS {random.choice(['INT','BIGINT','DOUBLE','DECIMAL(10,2)','VARCHAR'])})", f"LENGTH(s)", f"EXTRACT(YEAR FROM dt)", f"SUM({ne(d-1)})", f"COUNT(*)", f"AVG({ne(d-1)})", f"MIN({ne(d-1)})", f"NULLIF({ne(d-1)}, {ne(d-1)})", f"ROUND({ne(d-1)})", f"FLOOR({ne(d-1)})", f"CEIL({ne(d-1)})"])
def oe():
    return random.choice([ne(), f"{ne()} < {ne()}", "s || s", "UPPER(s)", "dt + INTERVAL 1 DAY", "ts - INTERVAL 1 HOUR", "dt - dt", "ts - ts", "CAST(s AS DATE)", "DATE_TRUNC('month', ts)", "DATE_TRUNC('month', dt)", "CONCAT(s, s)", "bo AND bo", "NOT bo", "i IS NULL", "s LIKE 'a%'", "NULL", "ROW_NUMBER() OVER (ORDER BY i)", "SUM(i) OVER ()", "CURRENT_DATE", "STRFTIME(ts, '%Y')", "SUBSTRING(s, 1, 2)"])
def cls(t):
    t=t.upper()
    if t.startswith('DECIMAL') or t in ('DOUBLE','FLOAT','REAL'): return 'num-frac'
    if t in ('TINYINT','SMALLINT','INTEGER','INT','BIGINT','HUGEINT','UTINYINT','USMALLINT','UINTEGER','UBIGINT','INT128'): return 'int'
    if t in ('VARCHAR','TEXT','CHAR','STRING'): return 'text'
    if t.startswith('TIMESTAMP') or t=='DATETIME': return 'timestamp'
    if t in ('"NULL"','NULL','UNKNOWN'): return 'null'
    return t.lower()
cnt=collections.Counter(); ex={}
for n in range(int(sys.argv[2]) if len(sys.argv)>2 else 500):
    e=oe(); sql=f"SELECT {e} AS r FROM t"
    try: et=con.execute(f"SELECT typeof(r) FROM ({sql})").fetchone()[0]
    except Exception as x: cnt['engine-err']+=1; continue
    try:
        a=annotate_types(qualify(sqlglot.parse_one(sql,'duckdb'),schema=schema,dialect='duckdb'),schema=schema,dialect='duckdb')
        it=a.selects[0].type.sql('duckdb') if a.selects[0].type else 'UNKNOWN'
    except Exception as x: cnt['annot-exc:'+type(x).__name__]+=1; ex.setdefault('annot-exc',(sql,repr(x)[:100])); continue
    ci,ce=cls(it),cls(et)
    if ci==ce or ci=='null' : cnt['ok' if ci==ce else 'unknown']+=1
    else: cnt[(ci,ce)]+=1; ex.setdefault((ci,ce),(e,it,et))
print(cnt)
for k,v in ex.items(): print(k,v)

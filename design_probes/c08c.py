import sqlglot, random, sys, collections, logging, itertools
from sqlglot import exp
from sqlglot.expressions.core import Expr
from c08 import check as walk_check
logging.disable(logging.CRITICAL)
random.seed(int(sys.argv[1])); N=int(sys.argv[2])
SEEDS=["SELECT a, b + 1 AS c FROM t WHERE x IN (1, 2) AND y > 3 ORDER BY a","SELECT f(a, b, c) FROM t JOIN u ON t.k = u.k GROUP BY a HAVING COUNT(*) > 1","a AND (b OR c) AND NOT d","CASE WHEN a THEN 1 WHEN b THEN 2 ELSE 3 END","WITH q AS (SELECT 1 AS x) SELECT x FROM q UNION ALL SELECT 2","CAST(a AS DECIMAL(10, 2)) + COALESCE(b, 0, 1)"]
FRESH=["z","1","'s'","z + 1","g(z)","NOT z","(SELECT 9)","z AS zz","CAST(z AS INT)","z.y"]
def fresh(): return sqlglot.parse_one(random.choice(FRESH))
def canon(n):
    if isinstance(n,Expr):
        raw=getattr(n,'_hash_raw_args',False)
        items=[]
        for k in sorted(n.args):
            v=n.args[k]
            if raw:
                if v: items.append((k,canon(v)))
            elif type(v) is list:
                items.append((k,tuple(canon(x) if (x is not None and x is not False) else None for x in v)) ) if v else None
            elif v is not None and v is not False: items.append((k,canon(v)))
        return (n.key,tuple(i for i in items if i))
    if isinstance(n,str): return n.lower()
    if isinstance(n,list): return tuple(canon(x) for x in n)
    return n
def nodes(t): return list(t.walk())
cnt=collections.Counter(); ex={}
def op(t):
    ns=nodes(t); n=random.choice(ns); r=random.random()
    name=None
    try:
        if r<0.15:
            ks=[k for k,v in n.args.items() if isinstance(v,Expr)]
            if ks: k=random.choice(ks); n.set(k, fresh()); name='set-scalar'
        elif r<0.3:
            ks=[k for k,v in n.args.items() if type(v) is list and v and all(isinstance(x,Expr) for x in v)]
            if ks:
                k=random.choice(ks); L=n.args[k]; i=random.randrange(len(L)); m=random.random()
                if m<0.25: n.set(k, fresh(), index=i); name='set-idx-overwrite'
                elif m<0.5: n.set(k, fresh(), index=i, overwrite=False); name='set-idx-insert'
                elif m<0.75: n.set(k, None, index=i); name='set-idx-delete'
                else: n.set(k, [fresh(),fresh()], index=i); name='set-idx-splice'
        elif r<0.4:
            ks=[k for k,v in n.args.items() if type(v) is list and all(isinstance(x,Expr) for x in v)]
            if ks: n.append(random.choice(ks), fresh()); name='append'
        elif r<0.55:
            if n.parent is not None: n.replace(fresh()); name='replace'
        elif r<0.63:
            if n.parent is not None and n.arg_key not in ('this',): n.pop(); name='pop'
        elif r<0.7:
            hash(t); name='hash'
        elif r<0.75:
            hash(n); name='hash-sub'
        elif r<0.83:
            t2=t.transform(lambda x: fresh() if isinstance(x,exp.Literal) and random.random()<0.5 else x, copy=False); name='transform-inplace'
            return t2,name
        elif r<0.9:
            t2=t.transform(lambda x: x, copy=True); name='transform-copy'; return t2,name
        else:
            t2=t.copy(); name='copy'; return t2,name
    except Exception as e:
        cnt['op-exc:'+type(e).__name__+':'+(name or '?')]+=1; ex.setdefault('op-exc:'+type(e).__name__,(t.sql() if True else '',repr(e)[:100]))
    return t,name
for i in range(N):
    t=sqlglot.parse_one(random.choice(SEEDS)); hist=[]
    for step in range(random.randint(1,12)):
        t,name=op(t); hist.append(name)
        if name is None: continue
        probs=walk_check(t)
        if probs:
            key=(probs[0][0],name); cnt[key]+=1; ex.setdefault(key,(hist[:],probs[:2])); break
        # eq vs canon against a reparse of own sql (when it parses)
    cnt['seq']+=1
    try:
        c=t.copy()
        if (c==t)!=(canon(c)==canon(t)): cnt['eq-canon-copy']+=1
        t2=sqlglot.parse_one(random.choice(SEEDS))
        if (t2==t)!=(canon(t2)==canon(t)): cnt['eq-canon-other']+=1; ex.setdefault('eq-canon-other',(t.sql(),t2.sql()))
    except Exception as e: cnt['final-exc']+=1
print(cnt)
for k,v in ex.items(): print(k,repr(v)[:400])

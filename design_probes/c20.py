import sqlglot, random, collections, logging, sys
from sqlglot import exp, diff, parse_one
from sqlglot.diff import Insert, Remove, Move, Update, Keep
logging.disable(logging.CRITICAL)
sys.path.insert(0,'/repo')
from tests.helpers import load_sql_fixture_pairs
random.seed(0)
pairs=[]
for f in ['optimizer','merge_subqueries','pushdown_predicates','simplify','qualify_columns','eliminate_subqueries']:
    for meta, sql, expected in load_sql_fixture_pairs(f"optimizer/{f}.sql"):
        pairs.append((sql,expected,meta.get('dialect')))
seeds=[l.strip() for l in open('/repo/tests/fixtures/identity.sql') if l.strip() and not l.startswith('--')]
for _ in range(600):
    pairs.append((random.choice(seeds),random.choice(seeds),None))
for s in seeds[:400]: pairs.append((s,s,None))
cnt=collections.Counter(); ex={}
def nodes(t): return [n for n in t.walk() if not isinstance(n, exp.Identifier)]
for a,b,d in pairs:
    try: s=parse_one(a,read=d); t=parse_one(b,read=d)
    except Exception: continue
    try: es=diff(s,t)
    except Exception as e: cnt['exc:'+type(e).__name__]+=1; ex.setdefault('exc',(a,b,repr(e)[:100])); continue
    src=collections.Counter(); tgt=collections.Counter()
    for e in es:
        if isinstance(e,Remove): src[id(e.expression)]+=1
        elif isinstance(e,Insert): tgt[id(e.expression)]+=1
        elif isinstance(e,(Keep,Update)):
            src[id(e.source)]+=1; tgt[id(e.target)]+=1
            if type(e.source) is not type(e.target): cnt['type-mismatch']+=1; ex.setdefault('type-mismatch',(a,b))
    sn={id(n) for n in nodes(s)}; tn={id(n) for n in nodes(t)}
    if set(src)!=sn or any(v!=1 for v in src.values()): cnt['src-accounting']+=1; ex.setdefault('src-accounting',(a,b,len(sn),len(src),[k for k,v in src.items() if v!=1][:3]))
    elif set(tgt)!=tn or any(v!=1 for v in tgt.values()): cnt['tgt-accounting']+=1; ex.setdefault('tgt-accounting',(a,b))
    else: cnt['acct-ok']+=1
    delta=[e for e in es if not isinstance(e,Keep)]
    if (not delta)!=(s==t): cnt['delta-eq-mismatch:'+('empty-but-neq' if not delta else 'nonempty-but-eq')]+=1; ex.setdefault('delta-'+('empty' if not delta else 'nonempty'),(a,b,[type(e).__name__ for e in delta][:4]))
print(cnt)
for k,v in ex.items(): print(k,repr(v)[:500])

import sys, signal
exec(open('c05.py').read().split("bugs=collections.Counter()")[0])
class TO(Exception): pass
def h(*a): raise TO()
signal.signal(signal.SIGALRM,h)
for n in range(N):
    s=mutate(random.choice(seeds)); d=random.choice(ds); lvl=random.choice(list(ErrorLevel))
    signal.alarm(5)
    try:
        trees=sqlglot.parse(s, read=d, error_level=lvl)
        for t in trees:
            if t is not None:
                try: t.sql(dialect=d, unsupported_level=ErrorLevel.IGNORE)
                except TO: raise
                except Exception: pass
    except TO:
        print('TIMEOUT',repr(s),d,lvl); 
    except Exception: pass
    signal.alarm(0)

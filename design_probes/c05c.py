import sqlglot, signal, traceback, logging, sys
from sqlglot.errors import ErrorLevel
logging.disable(logging.CRITICAL)
class TO(Exception): pass
def h(*a): raise TO()
signal.signal(signal.SIGALRM,h)
cases=[("COMMENT ON PROCEDURE my_proc(integer, NOT 'Runs a report'","bigquery"),('copy SELECT } copy','dune'),('INSERT INTO WITH "tests_user" ("username", "first_name", NOT "last_name") VALUES \'Fiara\', (\'fiara\', \'Ironhide\') RETURNING "tests_user"."id"','databricks')]
for s,d in cases:
  for lvl in ErrorLevel:
    signal.alarm(3)
    try:
        sqlglot.parse(s, read=d, error_level=lvl); print(d,lvl.name,'ok')
    except TO as e:
        tb=traceback.extract_tb(e.__traceback__)
        print(d,lvl.name,'TIMEOUT', [(f.name,f.lineno) for f in tb[-6:]])
    except Exception as e: print(d,lvl.name,type(e).__name__)
    signal.alarm(0)

import sys, signal, json, traceback
exec(open('c05.py').read().split("bugs=collections.Counter()")[0])
class TO(BaseException): pass
def h(*a): raise TO()
signal.signal(signal.SIGALRM,h)
out=open(f'c05d_{sys.argv[1]}.jsonl','w')
def sig(e):
    tb=traceback.extract_tb(e.__traceback__)
    fr=[f for f in tb if '/repo/sqlglot' in f.filename]
    return [ (f.filename.split('/')[-1], f.name) for f in fr[-4:]]
for n in range(N):
    s=mutate(random.choice(seeds)); d=random.choice(ds); lvl=random.choice(list(ErrorLevel))
    signal.setitimer(signal.ITIMER_REAL, 3)
    rec=None
    try:
        try:
            trees=sqlglot.parse(s, read=d, error_level=lvl)
        except SqlglotError: trees=[]
        except TO as e: rec=dict(kind='hang-parse',sig=sig(e)); trees=[]
        except Exception as e: rec=dict(kind='leak-parse',exc=type(e).__name__,sig=sig(e)); trees=[]
        for t in trees:
            if t is not None and rec is None:
                try: t.sql(dialect=d, unsupported_level=ErrorLevel.IGNORE)
                except SqlglotError: pass
                except TO as e: rec=dict(kind='hang-gen',sig=sig(e))
                except Exception as e: rec=dict(kind='leak-gen',exc=type(e).__name__,sig=sig(e))
    except TO as e:
        rec=dict(kind='hang-other')
    signal.setitimer(signal.ITIMER_REAL, 0)
    if rec:
        rec.update(sql=s,dialect=d,level=lvl.name); out.write(json.dumps(rec)+'\n'); out.flush()

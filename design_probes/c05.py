import sqlglot, random, collections, traceback, sys, time, logging
from sqlglot import exp
from sqlglot.errors import SqlglotError, ErrorLevel
from sqlglot.dialects import DIALECTS
logging.disable(logging.CRITICAL)
ds = [""] + [d.lower() for d in DIALECTS]
seeds=[l.strip() for l in open('/repo/tests/fixtures/identity.sql') if l.strip() and not l.startswith('--')]
random.seed(int(sys.argv[1]) if len(sys.argv)>1 else 0)
N=int(sys.argv[2]) if len(sys.argv)>2 else 3000
KW=["SELECT","FROM","WHERE","(",")",",","AS","JOIN","ON","GROUP BY","ORDER BY","CASE","WHEN","END","NOT","IN","IS","NULL","BETWEEN","AND","OR","::","[","]","{","}","*",".","OVER","PARTITION BY","UNION","WITH","INSERT","INTO","VALUES","CREATE","TABLE","INTERVAL","'a'","1","x","LIKE","ESCAPE","EXISTS","CAST","ALTER","DROP","LATERAL","UNNEST","PIVOT","FOR","LIMIT","OFFSET","@","?",":","->","=>",";","DISTINCT","ALL","ANY"]
def mutate(s):
    toks=s.split(' ')
    for _ in range(random.randint(1,3)):
        op=random.randint(0,5)
        if not toks: break
        i=random.randrange(len(toks))
        if op==0: del toks[i]
        elif op==1: toks.insert(i, random.choice(KW))
        elif op==2:
            j=random.randrange(len(toks)); toks[i],toks[j]=toks[j],toks[i]
        elif op==3: toks.insert(i,toks[i])
        elif op==4: toks=toks[:i]
        else: toks[i]=random.choice(KW)
    return ' '.join(toks)
bugs=collections.Counter(); ex={}
slow=[]
t0=time.time()
for n in range(N):
    s=mutate(random.choice(seeds)); d=random.choice(ds); lvl=random.choice(list(ErrorLevel))
    t1=time.time()
    try:
        trees=sqlglot.parse(s, read=d, error_level=lvl)
        for t in trees:
            if t is not None:
                try:
                    t.sql(dialect=d, unsupported_level=ErrorLevel.IGNORE)
                except SqlglotError: pass
                except Exception as e:
                    tb=traceback.extract_tb(e.__traceback__)[-1]
                    k=('gen',type(e).__name__, tb.filename.split('/')[-1], tb.lineno, lvl.name)
                    bugs[k]+=1; ex.setdefault(k,(s,d))
    except SqlglotError: pass
    except Exception as e:
        tb=traceback.extract_tb(e.__traceback__)[-1]
        k=('parse',type(e).__name__, tb.filename.split('/')[-1], tb.lineno, lvl.name)
        bugs[k]+=1; ex.setdefault(k,(s,d))
    dt=time.time()-t1
    if dt>1: slow.append((dt,s,d))
print('time',time.time()-t0)
for k,v in bugs.most_common(60): print(v,k,ex[k])
print('slow',slow[:5])

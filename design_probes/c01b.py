import sqlglot, random, sys, collections, logging, json
from sqlglot import exp
from sqlglot.errors import ErrorLevel, SqlglotError
from sqlglot.dialects import DIALECTS
logging.disable(logging.CRITICAL)
random.seed(int(sys.argv[1])); N=int(sys.argv[2])
ds=[""]+[d.lower() for d in DIALECTS]
tc=['t.a','t.b']; uc=['u.a','u.c']
def ie(cols,d=2):
    r=random.random()
    if d==0 or r<0.4: return random.choice(cols+['1','2','0.5',"NULL"])
    if r<0.6: return f"{ie(cols,d-1)} {random.choice(['+','-','*','/','%'])} {ie(cols,d-1)}"
    if r<0.68: return f"({ie(cols,d-1)})"
    if r<0.74: return f"-{ie(cols,d-1)}"
    if r<0.8: return f"COALESCE({ie(cols,d-1)}, {ie(cols,d-1)})"
    if r<0.85: return f"CASE WHEN {be(cols,d-1)} THEN {ie(cols,d-1)} ELSE {ie(cols,d-1)} END"
    if r<0.9: return f"CAST({ie(cols,d-1)} AS {random.choice(['INT','BIGINT','DOUBLE','DECIMAL(10, 2)','VARCHAR','TEXT','DATE','TIMESTAMP','BOOLEAN','SMALLINT','FLOAT'])})"
    if r<0.94: return random.choice([f"ABS({ie(cols,d-1)})",f"NULLIF({ie(cols,d-1)}, {ie(cols,d-1)})",f"SUM({ie(cols,d-1)})",f"COUNT(*)",f"MAX({ie(cols,d-1)})",f"COUNT(DISTINCT {ie(cols,0)})", f"ROUND({ie(cols,d-1)}, 2)"])
    if r<0.97: return f"SUM({ie(cols,0)}) OVER (PARTITION BY {ie(cols,0)} ORDER BY {ie(cols,0)}{random.choice([' DESC','',' NULLS FIRST'])}{random.choice(['',' ROWS BETWEEN 1 PRECEDING AND CURRENT ROW'])})"
    return f"(SELECT MAX(v.d) FROM v WHERE v.c = {random.choice(cols)})"
def se(d=1):
    r=random.random()
    if d==0 or r<0.4: return random.choice(["t.s","'q'","'it''s'","''"])
    if r<0.6: return f"{se(d-1)} || {se(d-1)}"
    if r<0.7: return f"UPPER({se(d-1)})"
    if r<0.8: return f"CONCAT({se(d-1)}, {se(d-1)})"
    if r<0.9: return f"SUBSTRING({se(d-1)}, 1, 2)"
    return f"TRIM({se(d-1)})"
def be(cols,d=2):
    r=random.random()
    if d==0 or r<0.3: return f"{ie(cols,1)} {random.choice(['=','<>','<','<=','>','>='])} {ie(cols,1)}"
    if r<0.45: return f"{be(cols,d-1)} AND {be(cols,d-1)}"
    if r<0.6: return f"{be(cols,d-1)} OR {be(cols,d-1)}"
    if r<0.66: return f"({be(cols,d-1)})"
    if r<0.73: return f"NOT {be(cols,d-1)}"
    if r<0.8: return f"{ie(cols,1)} IS {random.choice(['','NOT '])}NULL"
    if r<0.85: return f"{ie(cols,1)} {random.choice(['','NOT '])}IN ({ie(cols,0)}, {ie(cols,0)})"
    if r<0.9: return f"{ie(cols,1)} {random.choice(['','NOT '])}BETWEEN {ie(cols,0)} AND {ie(cols,0)}"
    if r<0.94: return f"{se(1)} {random.choice(['','NOT '])}LIKE 'a%'"
    if r<0.97: return f"{random.choice(['','NOT '])}EXISTS (SELECT 1 FROM v WHERE v.c = {random.choice(cols)})"
    return f"{random.choice(cols)} IN (SELECT v.c FROM v)"
def sel(depth=1):
    r=random.random()
    if r<0.3: return f"SELECT {ie(tc)} AS x, {se()} AS s FROM t WHERE {be(tc)}"
    if r<0.5:
        jt=random.choice(['JOIN','LEFT JOIN','RIGHT JOIN','FULL JOIN','CROSS JOIN','INNER JOIN','LEFT OUTER JOIN'])
        on='' if jt=='CROSS JOIN' else random.choice([f" ON {be(tc+uc,1)}"," USING (a)"])
        return f"SELECT {ie(tc+uc)} AS x, t.b, u.c AS c FROM t {jt} u{on} WHERE {be(tc+uc,1)}"
    if r<0.62 and depth: return f"SELECT q.x, q.s FROM ({sel(0)}) AS q WHERE q.x > 1"
    if r<0.72 and depth: return f"WITH c AS ({sel(0)}), c2 AS (SELECT * FROM c) SELECT c.x FROM c JOIN c2 ON c.x = c2.x"
    if r<0.82: return f"SELECT t.a, SUM({ie(tc,1)}) AS x, COUNT(*) FROM t GROUP BY t.a HAVING {be(['t.a','COUNT(*)'],1)} ORDER BY t.a{random.choice([' DESC','',' NULLS LAST',' DESC NULLS FIRST'])} LIMIT {random.randint(1,9)}{random.choice([' OFFSET 2',''])}"
    if r<0.9: return f"SELECT t.a FROM t {random.choice(['UNION','UNION ALL','INTERSECT','EXCEPT'])} SELECT u.a FROM u"
    return f"SELECT DISTINCT t.a, t.b FROM t ORDER BY 1, 2"
def stmt():
    r=random.random()
    if r<0.7: return sel()
    if r<0.76: return f"INSERT INTO t (a, b) VALUES ({ie([],1)}, {ie([],1)}), (1, 2)"
    if r<0.8: return f"INSERT INTO t {sel(0)}"
    if r<0.85: return f"UPDATE t SET a = {ie(tc,1)}, b = 2 WHERE {be(tc,1)}"
    if r<0.9: return f"DELETE FROM t WHERE {be(tc,1)}"
    if r<0.95: return f"CREATE TABLE z (a INT NOT NULL, b VARCHAR(10), c DECIMAL(10, 2) DEFAULT 0, PRIMARY KEY (a))"
    return random.choice([f"CREATE VIEW w AS {sel(0)}", "DROP TABLE IF EXISTS z", "ALTER TABLE t ADD COLUMN z INT", f"CREATE TABLE z AS {sel(0)}"])
def check(s,d):
    try: t=sqlglot.parse_one(s, read=d)
    except SqlglotError: return None,'noparse'
    except Exception as e: return None,'parse-internal:'+type(e).__name__
    try: s1=t.sql(dialect=d, unsupported_level=ErrorLevel.IGNORE)
    except Exception as e: return t,'gen1:'+type(e).__name__
    try: t1=sqlglot.parse_one(s1, read=d)
    except Exception as e: return t,'reparse'
    try: s2=t1.sql(dialect=d, unsupported_level=ErrorLevel.IGNORE)
    except Exception as e: return t,'gen2:'+type(e).__name__
    if s1!=s2: return t,'nonidem'
    if d=="" and t!=t1: return t,'tree-neq'
    return t,'ok'
def localise(t,d,kind):
    best=None
    nodes=sorted(t.walk(), key=lambda n: sum(1 for _ in n.walk()))
    for n in nodes:
        if n is t or isinstance(n,(exp.Identifier,exp.DataType)) : continue
        try: sub=n.sql(dialect=d, unsupported_level=ErrorLevel.IGNORE)
        except Exception: continue
        _,k=check(sub,d)
        if k==kind: return type(n).__name__
    return 'ROOT:'+type(t).__name__
cnt=collections.Counter(); sig=collections.Counter(); ex={}
for i in range(N):
    s=stmt()
    for d in ds:
        t,k=check(s,d)
        cnt[(d,k if k in('ok','noparse') else 'FAIL')]+=1
        if k not in ('ok','noparse'):
            key=(d,k,localise(t,d,k) if t is not None else '-')
            sig[key]+=1; ex.setdefault(key,s)
tot=sum(v for (d,k),v in cnt.items() if k=='ok'); fails=sum(v for (d,k),v in cnt.items() if k=='FAIL'); nop=sum(v for (d,k),v in cnt.items() if k=='noparse')
print('ok',tot,'fail',fails,'noparse',nop,'distinct signatures',len(sig))
json.dump([[list(k),v,ex[k]] for k,v in sig.most_common()], open(f'c01b_{sys.argv[1]}.json','w'))
for k,v in sig.most_common(70): print(v,k,ex[k][:150])

import sqlglot, random, duckdb, sys, collections, logging, itertools
from sqlglot import exp
from sqlglot.optimizer.simplify import simplify
logging.disable(logging.CRITICAL)
exec(open('c06.py').read().split("bad=collections.Counter()")[0].split("con=duckdb.connect()")[1].join(["con=duckdb.connect()",""]) if False else "")
random.seed(int(sys.argv[1])); N=int(sys.argv[2])
con=duckdb.connect()
ints=[None,-1,0,1,2,3]; bools=[None,True,False]
con.execute("create table t(a int, b int, p boolean, q boolean)")
con.executemany("insert into t values (?,?,?,?)", list(itertools.product(ints,ints,bools,bools)))
def gi(d):
    r=random.random()
    if d<=0 or r<0.35: return random.choice(["a","b","0","1","2","3","-1","NULL"])
    if r<0.6: return f"({gi(d-1)} {random.choice('+-*')} {gi(d-1)})"
    if r<0.75: return f"COALESCE({gi(d-1)}, {gi(d-1)})"
    if r<0.85: return f"CASE WHEN {gb(d-1)} THEN {gi(d-1)} ELSE {gi(d-1)} END"
    return gi(d-1)
def gb(d):
    r=random.random()
    if d<=0 or r<0.2: return random.choice(["p","q","TRUE","FALSE","NULL","a = 1","a = b","b = 2","a < b"])
    if r<0.45: return f"({gb(d-1)} AND {gb(d-1)})"
    if r<0.6: return f"({gb(d-1)} OR {gb(d-1)})"
    if r<0.7: return f"NOT {gb(d-1)}"
    if r<0.85: return f"{gi(d-1)} {random.choice(['=','<>','<','<=','>','>='])} {gi(d-1)}"
    if r<0.9: return f"{gi(d-1)} IS {random.choice(['','NOT '])}NULL"
    return f"COALESCE({gi(d-1)}, {random.choice(['0','1','2'])}) {random.choice(['=','<>','<','>'])} {random.choice(['0','1','2'])}"
def ev(sql): return con.execute(f"select {sql} from t order by rowid").fetchall()
cnt=collections.Counter(); ex=collections.defaultdict(list)
for i in range(N):
    s=gb(random.randint(1,4))
    try: base=ev(s)
    except Exception: cnt['engine-err']+=1; continue
    for opts in (dict(constant_propagation=True),dict(coalesce_simplification=True),dict(constant_propagation=True,coalesce_simplification=True)):
        name='+'.join(k[:5] for k in opts)
        for wrap in ('proj','where'):
            sql=f"SELECT {s} AS r FROM t" if wrap=='proj' else f"SELECT a, b, p, q FROM t WHERE {s}"
            try:
                out=simplify(sqlglot.parse_one(sql, read='duckdb'), dialect='duckdb', **opts); o=out.sql('duckdb')
                if wrap=='proj': r2=con.execute(o+" order by rowid" if False else o.replace(" FROM t"," FROM t ORDER BY rowid")).fetchall(); ok=(r2==base)
                else:
                    r0=sorted(con.execute(sql).fetchall(),key=repr); r2=sorted(con.execute(o).fetchall(),key=repr); ok=(r0==r2)
            except Exception as e:
                cnt[f'{name}-{wrap}-exc:{type(e).__name__}']+=1; ex[f'{name}-exc'].append((sql,repr(e)[:120])); continue
            if not ok: cnt[f'{name}-{wrap}-MISMATCH']+=1; ex[f'{name}-{wrap}'].append((sql,o))
            else: cnt['ok']+=1
print(cnt)
for k,v in ex.items():
    for m in v[:5]: print(k,m)

import sqlglot, collections, logging, sys
from sqlglot import exp
from sqlglot.expressions.core import Expr
logging.disable(logging.CRITICAL)
def check(root):
    probs=[]
    seen={}
    stack=[root]
    while stack:
        n=stack.pop()
        if id(n) in seen: probs.append(('alias',type(n).__name__)); continue
        seen[id(n)]=n
        for k,v in n.args.items():
            if isinstance(v,Expr):
                if v.parent is not n: probs.append(('parent',type(n).__name__,k,type(v).__name__))
                elif v.arg_key!=k: probs.append(('argkey',type(n).__name__,k,v.arg_key))
                elif v.index is not None: probs.append(('index-scalar',type(n).__name__,k,v.index))
                stack.append(v)
            elif type(v) is list:
                for i,x in enumerate(v):
                    if isinstance(x,Expr):
                        if x.parent is not n: probs.append(('parent',type(n).__name__,k,type(x).__name__))
                        elif x.arg_key!=k: probs.append(('argkey',type(n).__name__,k,x.arg_key))
                        elif x.index!=i: probs.append(('index',type(n).__name__,k,i,x.index))
                        stack.append(x)
    # hash
    for n in seen.values():
        if n._hash is not None:
            c=n.copy()
            for m in c.walk(): m._hash=None
            if hash(c)!=n._hash: probs.append(('hash',type(n).__name__))
    return probs
if __name__=='__main__':
    from sqlglot.dialects import DIALECTS
    seeds=[l.strip() for l in open('/repo/tests/fixtures/identity.sql') if l.strip() and not l.startswith('--')]
    cnt=collections.Counter(); ex={}
    for s in seeds:
        for d in ["", "duckdb","bigquery","snowflake","tsql","mysql","postgres","oracle","hive","clickhouse"]:
            try: t=sqlglot.parse_one(s, read=d)
            except Exception: continue
            hash(t)
            for p in check(t):
                cnt[p]+=1; ex.setdefault(p,(s,d))
    for k,v in cnt.most_common(40): print(v,k,ex[k])
    print('parse done')
